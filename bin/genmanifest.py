#!/usr/bin/env python3
"""Regenerates /verif/MANIFEST.json from the table below (single source of truth for what is claimed)."""
import json, os
ROOT = os.path.dirname(os.path.dirname(os.path.abspath(__file__)))
props = [json.loads(l)["id"] for l in open(os.path.join(ROOT, "properties.jsonl")) if l.strip()]

# id -> (level, engine, technique, text, note, design_ref)
CLAIMED = {
 "C03": ("exploration", "enum+refttlv",
  "bounded exhaustive enumeration of generic TTLV trees (scalar boundary alphabets x shapes) judged by an independent TTLV parser/generator",
  "Every tree of the stated finite space is encoded by the real encoder and parsed by an independent strict parser, and the independent generator's bytes are decoded by the real decoder; the space is enumerated completely (exhaustive:true).",
  "Trusted: refttlv (200 lines, written from the spec), the Go toolchain. Values outside the alphabets are represented by boundary classes only.",
  "DESIGN.md §3 C03"),
 "C08": ("model_checking", "mcsched",
  "stateless model checking of the real kmipserver code under a controlled scheduler: exhaustive DFS over thread interleavings, select choices and timer firings within a preemption bound, happens-before state cache",
  "The repository's kmipserver sources are re-compiled with every channel/select/atomic/WaitGroup/context/timer operation turned into a scheduling point; scripted client connections (valid, pipelined, partial, garbage, oversized, abrupt close, half-close, panicking and slow handlers, 16-byte pipes) are explored over all schedules up to the bound; oracle: no panic, no deadlock, no leaked per-connection goroutine, exactly one in-order response per well-formed request, one invalid-message response for framed garbage.",
  "Trusted: instrumenter rewrite rules and mc shim semantics (FIFO waiter order, abstract timers, sequentially consistent memory), in-memory network model. Bounds: <=3 connections, preemption bound 1 (quick) / 2 (thorough) for one connection, 0/1 for two.",
  "DESIGN.md §2 E1, §3 C08"),
 "C10": ("model_checking", "mcsched",
  "stateless model checking of the real kmipclient code under a controlled scheduler: exhaustive DFS over interleavings of callers, read/write loops, echo servers, cancellers and timers within preemption / delay bounds, happens-before state cache",
  "N callers share one real Client whose dialer yields in-memory connections to scripted servers echoing the request identifier; every call must return an error or its own identifier. All schedules within the stated bounds are executed on the real (instrumented) code.",
  "Trusted: instrumenter + mc shim semantics, in-memory network; bounds: <=3 callers, delay bound 3 / preemption bound 1 (quick), 4 / 2 (thorough).",
  "DESIGN.md §2 E1, §3 C10"),
 "C11": ("fault_enumeration", "mcsched",
  "exhaustive fault-point enumeration under the controlled scheduler: every Read/Write/dial/server-reply of an exchange is an environment choice (ok, EOF, reset, closed, short, close-after-reply, refused), all placements of <=k faults x all schedules within the scheduling bound",
  "Runs the real client (dial, optional version discovery, three calls, Close, call after Close) with every I/O operation as a fault point; oracle: no panic, no caller blocked forever, own response or error, <=4 transmissions per call, the call after a failed call succeeds when no new fault hits it, calls after Close fail, Close idempotent, no goroutine of the client left at quiescence.",
  "Trusted: as C10; 'promptly' = no further external event needed. Bounds: 1 fault x delay bound 2 and 2 faults x delay bound 1 (quick); 2 faults / delay 3 / preemption-bounded variants under a deadline (thorough).",
  "DESIGN.md §2 E1, §3 C11"),
 "C16": ("model_checking", "mcsched",
  "stateless model checking of the real kmipserver Serve/Shutdown/handleConn code under a controlled scheduler: exhaustive DFS over interleavings of a free-running Shutdown thread, accept loop, connection goroutines, client scripts and the grace timer, within preemption / delay bounds",
  "Connections are brought to each phase (connecting, idle, half request, inside a fast or never-ending handler, response stuck in a 16-byte pipe, failing connect hook, late accept); oracle: Shutdown returns, Serve ends with ErrShutdown, listener closed, no handler running at or started after the return, a handled request is answered unless the grace timer fired, handlers are only cancelled after the timer fired or their client left, terminate hook exactly once per successful connect hook and never otherwise, no per-connection goroutine left at quiescence.",
  "Trusted: instrumenter + mc shim semantics (abstract timers), in-memory network incl. reset of the accept backlog on listener close. Bounds: <=2 connections, delay bound 3 (4 for the late-accept script) and preemption bound 1 (quick); delay 5 / preemption 3 under a deadline (thorough).",
  "DESIGN.md §2 E1, §3 C16"),
 "C15": ("model_checking", "mcsched+seqmc",
  "explicit exhaustive search over set/read/fail action sequences of a batch against a reference model, plus stateless model checking (controlled scheduler, all interleavings) of concurrent requests on the real BatchExecutor and through real server connections",
  "All batches up to 3 items x 2 actions (45k request pairs, quick) / 4 items (thorough) are executed on the real executor and compared with a reference model, each followed by a probe request on the same connection context; 2-3 concurrent requests with handlers yielding before every placeholder action are explored over all interleavings.",
  "Trusted: reference model (20 lines), instrumenter + mc shims, in-memory network. Bounds as stated in the evidence.",
  "DESIGN.md §3 C15"),
 "C20": ("model_checking", "mcsched+seqmc",
  "stateless model checking of the real ttlv codec with its plan caches instrumented: all interleavings of 2-3 encode/decode threads from cold caches within a preemption bound; exhaustive enumeration of call histories; references from fresh child processes; separate free-running -race pass",
  "The ttlv package is re-compiled with sync.Map operations as scheduling points and caches reset to cold before each execution; every result under any explored interleaving or history (all sequences of <=3/4 operations incl. reused cleared encoders, versions 1.0-1.4, binary/XML/JSON) must equal the result of the same call alone in a fresh process.",
  "Trusted: instrumenter + mc shims; sequential consistency. The 'no data race' clause is only examined by a dynamic -race pass on finitely many free runs (supporting evidence).",
  "DESIGN.md §3 C20"),
 "C07": ("model_checking", "seqmc",
  "explicit-state search over transport answers: deviation-bounded enumeration of Read sizes, all 2^(L-1) segmentations of short streams, all truncation offsets, announced lengths around the limit; reference model = split the stream at announced padded lengths",
  "The real ttlv.Stream.Recv is driven over a reader that owns every answer to Read(p); for every explored answer sequence the returned messages, the consumed offset after each message, the behaviour at truncation and at over-limit headers (largest read requested, bytes allocated) are compared with the reference.",
  "Trusted: 30-line reference; the transport returns 1..len(p) bytes per successful Read. Message sizes {8,16,24,520,1032}, sequences <=3, deviation bound 2 (quick) / 3 (thorough), segmentations L<=16 / 24.",
  "DESIGN.md §3 C07"),
 "C09": ("model_checking", "seqmc",
  "explicit-state exhaustive enumeration of request batches (length, continuation option, per-item outcome, version, batch count, IDs) on the real BatchExecutor against a reference executor, including the handler call log",
  "Every combination up to the length bound is run through BatchExecutor.HandleRequest; response shape, echoed operations/IDs, per-item status, header version/count and the order and number of handler invocations are compared with a 40-line reference executor.",
  "Trusted: reference executor. Length bound 4 (quick, 134k cases) / 6 (thorough). Random longer batches are not covered.",
  "DESIGN.md §3 C09"),
 "C19": ("model_checking", "seqmc",
  "explicit-state enumeration of middleware programs (all chains up to length 3/4 over 8 stage behaviours) on the real client chain, server message chain and server batch-item chain, compared with a recursive reference interpreter",
  "Every chain is executed on the real code (the client over an in-process pipe to an echo server); the recorded trace of stage entries (context marker, message identity), core invocations and returned results must equal the reference interpreter's trace.",
  "Trusted: 30-line reference interpreter. The concurrent clause (shared chain under concurrent requests) is covered only structurally (continuations hold no shared state after the fix); see DESIGN.md.",
  "DESIGN.md §3 C19"),
 "C13": ("exploration", "seqmc",
  "exhaustive enumeration of the finite configuration space (client version subsets x server subsets x server behaviours x enforced/not) with a reference function max(client ∩ server)",
  "All 8.6k cells are executed: a real DialContext and a follow-up request against the real BatchExecutor (default and after SetSupportedProtocolVersions) and scripted servers (ascending, every permutation, unoffered versions, empty list, discovery unsupported); adopted version, failure, membership and the header of the follow-up request are compared with the reference. exhaustive:true.",
  "Trusted: the 10-line reference. One deterministic exchange per cell (no schedule quantifier in this property).",
  "DESIGN.md §3 C13"),
 "C17": ("exploration", "ref",
  "exhaustive enumeration of the finite registry (all 2^24 tag numbers probed, every enumeration value, every mask flag) against a pinned table and an independent source (names used by the 410 OASIS vector files), with by-name round trips through XML, JSON and text",
  "Live registry == pinned/registry.json in both directions; name->number->name and number->name->number identities through every public lookup and through one-item XML/JSON documents; unregistered numbers and names per scope; no duplicate names per scope. exhaustive:true.",
  "Trusted: pinned/registry.json (generated from the pinned commit, spot-reviewed against the KMIP 1.4 tables, cross-checked on every run against 83k element names and 12.9k enumeration names of the vectors).",
  "DESIGN.md §3 C17"),
 "C01": ("exploration", "enum+ref",
  "deviation-bounded exhaustive enumeration of KMIP messages (rich baseline per operation and direction, every site x boundary alphabet, k<=1 quick / related pairs thorough, x 5 protocol versions) judged by an independent TTLV parser and an independent reflective projection of the populated elements",
  "For every enumerated message: the encoding parses strictly, its element tree equals the reference projection of the populated fields (pinned tags, pinned version table), decoding succeeds with identical payload types, the decoded value projects to the same tree, and re-encoding is byte-identical.",
  "Trusted: refttlv, msg.Projector (300 lines, mirrors the naming convention field name -> tag through the pinned registry), pinned tables. Values outside the alphabets are represented by boundary classes.",
  "DESIGN.md §3 C01"),
 "C04": ("exploration", "enum+ref",
  "bounded exhaustive enumeration: the C01 message space x {XML, JSON}; exhaustive one-item sweeps (Unicode scalar values, all enumeration values, mask bit patterns, integer/date boundaries); all 5.3k OASIS vector messages decoded, re-encoded and compared as trees by an independent XML/JSON reader",
  "Every produced document must be accepted by an independent strict parser (encoding/xml, encoding/json + own lexers, pinned names), carry the same element tree as the binary encoding, and decode to a message whose binary encoding is byte-identical; every vector of implemented operations must re-encode to the same element tree.",
  "Trusted: package reftext (450 lines), pinned registry, Go stdlib parsers. Lexical normalisation only (hex case, numeric vs named enumerations, mask flag order, dates as instants). TZ=UTC.",
  "DESIGN.md §3 C04"),
 "C05": ("exploration", "enum+ref",
  "exhaustive enumeration of the finite product (61 version-dependent fields x 5 versions x populated/unpopulated x every occurrence in the enumerated messages), encode side judged by the independent parser and projection, decode side fed by the independent generator",
  "For every occurrence the element is present iff populated and version >= introduced (pinned table); the same message with all later-version elements on the wire and the header at V decodes to a value that still carries them. The evidence lists occurrences per field and version and fails to be exhaustive if a cell was never exercised.",
  "Trusted: pinned/version_fields.json (from the KMIP 1.1-1.4 specifications), refttlv, msg.Projector.",
  "DESIGN.md §3 C05"),
}
NOT_YET = "check not built yet in this session (planned, see DESIGN.md §3)"
NA = {}

checks = []
for pid in props:
    if pid in CLAIMED:
        level, engine, tech, text, note, ref = CLAIMED[pid]
        checks.append({
            "property_id": pid,
            "quick_cmd": f"bin/check {pid} quick",
            "thorough_cmd": f"bin/check {pid} thorough",
            "evidence_file": f"/verif/evidence/{pid}.json",
            "replay_cmd_template": f"bin/check {pid} quick --replay {{path}}",
            "engine": engine,
            "level_claimed": {"category": level, "text": text, "design_ref": ref},
            "level_note": note,
            "technique": tech,
        })
na = [{"property_id": p, "reason": NA.get(p, NOT_YET)} for p in props if p not in CLAIMED]
m = {
 "version": 1,
 "setup_cmd": "bin/setup",
 "hooks": {
  "guard": "verifmc",
  "enable": "checks instrument /repo's current sources with tools/instr into a scratch dir and build with `go build -overlay ... -tags verifmc`; /repo itself contains no hook code",
  "baseline_off_cmd": "cd /repo && go test -vet=off -count=1 ./...",
  "source_commits": [],
  "add_only": True,
 },
 "engines": [
  {"name": "mcsched", "path": "mc/ tools/instr/ harness/scen/", "serves_properties": ["C08","C10","C11","C15","C16","C20"], "kind_free_text": "controlled cooperative scheduler + DFS with preemption/fault bounds and happens-before state cache, running the real client/server code re-compiled through a source instrumenter"},
  {"name": "enum", "path": "harness/enum/", "serves_properties": ["C01","C02","C03","C04","C05","C06","C12","C14","C18"], "kind_free_text": "deviation-bounded exhaustive enumerator of messages, byte strings, documents and TTLV trees"},
  {"name": "ref", "path": "harness/refttlv/ pinned/", "serves_properties": ["C01","C02","C03","C05","C17"], "kind_free_text": "independent TTLV parser/generator and pinned registry tables"},
  {"name": "seqmc", "path": "harness/checks/", "serves_properties": ["C07","C09","C13","C19","C15","C20"], "kind_free_text": "explicit-state / exhaustive sequence search against reference models"},
 ],
 "checks": checks,
 "not_applicable": na,
 "notes": "All checks: bin/check <ID> <tier>; exit 0 = held (KNOWN-FINDING lines possible), 1 = VIOLATION, 2 = machinery failure (never a verdict).",
}
json.dump(m, open(os.path.join(ROOT, "MANIFEST.json"), "w"), indent=1)
print("claimed:", [c["property_id"] for c in checks])
