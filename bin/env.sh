# sourced by every driver: resolves the offline Go toolchain that /repo's go.mod asks for
export VERIF_ROOT="${VERIF_ROOT:-/verif}"
export REPO="${REPO:-/repo}"
if [ -z "${VERIF_GOROOT:-}" ]; then
  VERIF_GOROOT=$(cd "$REPO" && GOFLAGS=-mod=mod GOPROXY=off go env GOROOT 2>/dev/null)
fi
export VERIF_GOROOT
export GO="$VERIF_GOROOT/bin/go"
export GOTOOLCHAIN=local GOFLAGS=-mod=mod GOPROXY=off GOSUMDB=off GONOSUMDB='*' GONOSUMCHECK=1 GOFLAGS=-mod=mod
export PATH="$VERIF_GOROOT/bin:$PATH"
export TZ=UTC
export VERIF_BUILD="$VERIF_ROOT/.build"
mkdir -p "$VERIF_BUILD"
