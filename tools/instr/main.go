// instr rewrites the concurrency constructs of the repository's packages into calls of the mc runtime
// (purely syntactic, go/ast). Output goes to a scratch directory together with an overlay JSON; /repo is never modified.
package main

import (
	"bytes"
	"encoding/json"
	"fmt"
	"path/filepath"
	"regexp"
	"go/ast"
	"go/format"
	"go/parser"
	"go/token"
	"os"
	"strconv"
	"strings"
)

const mcPath = "github.com/ovh/kmip-go/zz_verif/mc"

var importRewrite = map[string]string{
	"sync":        mcPath + "/vsync",
	"sync/atomic": mcPath + "/vatomic",
}

func sel(pkg, name string) ast.Expr { return &ast.SelectorExpr{X: ast.NewIdent(pkg), Sel: ast.NewIdent(name)} }
func call(fn ast.Expr, args ...ast.Expr) *ast.CallExpr { return &ast.CallExpr{Fun: fn, Args: args} }

type rw struct {
	tmp  int
	lits []token.Pos // start positions of the function literals enclosing the statement being rewritten
	decl token.Pos   // start of the enclosing function declaration
}

// resets collects, per package, statements that re-initialise lazily filled package-level caches
// (sync.Map variables and maps named *cache*), so that every execution starts from a cold process state.
var resets []string
var resetNeedsSync bool
var resetNeedsAtomic bool

var reCacheName = regexp.MustCompile(`(?i)cache`)

func exprString(e ast.Expr) string {
	var b bytes.Buffer
	_ = format.Node(&b, token.NewFileSet(), e)
	return b.String()
}

func isSyncMapType(e ast.Expr) bool {
	if st, ok := e.(*ast.StarExpr); ok {
		e = st.X
	}
	se, ok := e.(*ast.SelectorExpr)
	if !ok {
		return false
	}
	id, ok := se.X.(*ast.Ident)
	return ok && id.Name == "sync" && se.Sel.Name == "Map"
}

// pkgQualified returns the package identifier of a (possibly generic, possibly pointer) qualified type expression pkg.T / pkg.T[X].
func pkgQualified(e ast.Expr) (string, bool) {
	if st, ok := e.(*ast.StarExpr); ok {
		e = st.X
	}
	if ix, ok := e.(*ast.IndexExpr); ok {
		e = ix.X
	}
	se, ok := e.(*ast.SelectorExpr)
	if !ok {
		return "", false
	}
	id, ok := se.X.(*ast.Ident)
	if !ok {
		return "", false
	}
	return id.Name, true
}

func typeSelName(e ast.Expr) string {
	if st, ok := e.(*ast.StarExpr); ok {
		e = st.X
	}
	if ix, ok := e.(*ast.IndexExpr); ok {
		e = ix.X
	}
	if se, ok := e.(*ast.SelectorExpr); ok {
		return se.Sel.Name
	}
	return ""
}

func isSyncPoolType(e ast.Expr) bool {
	if st, ok := e.(*ast.StarExpr); ok {
		e = st.X
	}
	se, ok := e.(*ast.SelectorExpr)
	if !ok {
		return false
	}
	id, ok := se.X.(*ast.Ident)
	return ok && id.Name == "sync" && se.Sel.Name == "Pool"
}

// collectResets inspects a package-level var declaration BEFORE rewriting.
func collectResets(gd *ast.GenDecl) {
	if gd.Tok != token.VAR {
		return
	}
	for _, sp := range gd.Specs {
		vs := sp.(*ast.ValueSpec)
		for i, name := range vs.Names {
			if name.Name == "_" {
				continue
			}
			var init ast.Expr
			if i < len(vs.Values) {
				init = vs.Values[i]
			}
			// package-level atomics and Once values are zero in a fresh process
			if vs.Type != nil && init == nil {
				if pk, _ := pkgQualified(vs.Type); pk == "atomic" || (pk == "sync" && (typeSelName(vs.Type) == "Once" || typeSelName(vs.Type) == "Mutex" || typeSelName(vs.Type) == "RWMutex")) {
					if _, ptr := vs.Type.(*ast.StarExpr); !ptr {
						resets = append(resets, name.Name+" = "+exprString(vs.Type)+"{}")
						if pk == "sync" {
							resetNeedsSync = true
						} else {
							resetNeedsAtomic = true
						}
						continue
					}
				}
			}
			// a package-level sync.Pool starts empty in a fresh process
			if vs.Type != nil && isSyncPoolType(vs.Type) {
				resets = append(resets, name.Name+".ZZVerifReset()")
				continue
			}
			if init != nil {
				x := init
				if u, ok := x.(*ast.UnaryExpr); ok && u.Op == token.AND {
					x = u.X
				}
				if cl, ok := x.(*ast.CompositeLit); ok && isSyncPoolType(cl.Type) {
					resets = append(resets, name.Name+".ZZVerifReset()")
					continue
				}
			}
			switch {
			case vs.Type != nil && isSyncMapType(vs.Type) && init == nil:
				if _, ptr := vs.Type.(*ast.StarExpr); !ptr {
					resets = append(resets, name.Name+" = sync.Map{}")
					resetNeedsSync = true
				}
			case init != nil:
				if c, ok := init.(*ast.CallExpr); ok {
					if id, ok := c.Fun.(*ast.Ident); ok && id.Name == "new" && len(c.Args) == 1 && isSyncMapType(c.Args[0]) {
						resets = append(resets, name.Name+" = new(sync.Map)")
						resetNeedsSync = true
						continue
					}
					if id, ok := c.Fun.(*ast.Ident); ok && id.Name == "make" && len(c.Args) >= 1 {
						if _, isChan := c.Args[0].(*ast.ChanType); isChan {
							// a package-level channel (free list, semaphore, ...) starts empty in a fresh process
							resets = append(resets, name.Name+" = "+exprString(init))
							continue
						}
					}
					if id, ok := c.Fun.(*ast.Ident); ok && id.Name == "make" && len(c.Args) >= 1 && reCacheName.MatchString(name.Name) {
						if _, ok := c.Args[0].(*ast.MapType); ok {
							resets = append(resets, name.Name+" = make("+exprString(c.Args[0])+")")
						}
						continue
					}
				}
				if u, ok := init.(*ast.UnaryExpr); ok && u.Op == token.AND {
					if cl, ok := u.X.(*ast.CompositeLit); ok && isSyncMapType(cl.Type) {
						resets = append(resets, name.Name+" = new(sync.Map)")
						resetNeedsSync = true
						continue
					}
				}
				if cl, ok := init.(*ast.CompositeLit); ok {
					if isSyncMapType(cl.Type) {
						resets = append(resets, name.Name+" = sync.Map{}")
						resetNeedsSync = true
					} else if _, ok := cl.Type.(*ast.MapType); ok && len(cl.Elts) == 0 && reCacheName.MatchString(name.Name) {
						resets = append(resets, name.Name+" = "+exprString(cl.Type)+"{}")
					}
				}
			}
		}
	}
}

func (r *rw) fresh(p string) string { r.tmp++; return fmt.Sprintf("__%s%d", p, r.tmp) }

func isDoneCall(e ast.Expr) bool {
	c, ok := e.(*ast.CallExpr)
	if !ok || len(c.Args) != 0 {
		return false
	}
	s, ok := c.Fun.(*ast.SelectorExpr)
	return ok && s.Sel.Name == "Done"
}

// expr rewrites an expression tree bottom-up.
func (r *rw) expr(e ast.Expr) ast.Expr {
	if e == nil {
		return nil
	}
	switch x := e.(type) {
	case *ast.ChanType:
		return &ast.ParenExpr{X: &ast.StarExpr{X: &ast.IndexExpr{X: sel("zzmc", "Chan"), Index: r.expr(x.Value)}}}
	case *ast.UnaryExpr:
		x.X = r.expr(x.X)
		if x.Op == token.ARROW {
			if isDoneCall(x.X) {
				return call(sel("zzmc", "RecvDone"), x.X)
			}
			return call(sel("zzmc", "Recv"), x.X)
		}
		return x
	case *ast.CallExpr:
		if id, ok := x.Fun.(*ast.Ident); ok && id.Name == "make" && len(x.Args) >= 1 {
			if ct, ok := x.Args[0].(*ast.ChanType); ok {
				var size ast.Expr = &ast.BasicLit{Kind: token.INT, Value: "0"}
				if len(x.Args) > 1 {
					size = r.expr(x.Args[1])
				}
				return call(&ast.IndexExpr{X: sel("zzmc", "MakeChan"), Index: r.expr(ct.Value)}, size)
			}
		}
		if id, ok := x.Fun.(*ast.Ident); ok && id.Name == "close" && len(x.Args) == 1 {
			return call(sel("zzmc", "Close"), r.expr(x.Args[0]))
		}
		if s, ok := x.Fun.(*ast.SelectorExpr); ok {
			if p, ok := s.X.(*ast.Ident); ok {
				switch p.Name + "." + s.Sel.Name {
				case "context.WithCancelCause", "context.WithCancel", "context.WithTimeout", "context.WithDeadline", "context.WithTimeoutCause", "context.Cause", "time.AfterFunc", "time.After", "time.NewTimer", "time.Sleep":
					x.Fun = sel("zzmc", s.Sel.Name)
				case "context.AfterFunc":
					x.Fun = sel("zzmc", "CtxAfterFunc")
				}
			}
		}
		x.Fun = r.expr(x.Fun)
		for i := range x.Args {
			x.Args[i] = r.expr(x.Args[i])
		}
		return x
	case *ast.ParenExpr:
		x.X = r.expr(x.X)
		return x
	case *ast.SelectorExpr:
		x.X = r.expr(x.X)
		return x
	case *ast.StarExpr:
		x.X = r.expr(x.X)
		return x
	case *ast.BinaryExpr:
		x.X, x.Y = r.expr(x.X), r.expr(x.Y)
		return x
	case *ast.TypeAssertExpr:
		x.X = r.expr(x.X)
		x.Type = r.expr(x.Type)
		return x
	case *ast.CompositeLit:
		x.Type = r.expr(x.Type)
		for i := range x.Elts {
			x.Elts[i] = r.expr(x.Elts[i])
		}
		return x
	case *ast.KeyValueExpr:
		x.Value = r.expr(x.Value)
		return x
	case *ast.IndexExpr:
		x.X, x.Index = r.expr(x.X), r.expr(x.Index)
		return x
	case *ast.SliceExpr:
		x.X, x.Low, x.High, x.Max = r.expr(x.X), r.expr(x.Low), r.expr(x.High), r.expr(x.Max)
		return x
	case *ast.FuncLit:
		r.funcType(x.Type)
		r.lits = append(r.lits, x.Pos())
		r.block(x.Body)
		r.lits = r.lits[:len(r.lits)-1]
		return x
	case *ast.ArrayType:
		x.Elt = r.expr(x.Elt)
		return x
	case *ast.MapType:
		x.Key, x.Value = r.expr(x.Key), r.expr(x.Value)
		return x
	case *ast.FuncType:
		r.funcType(x)
		return x
	case *ast.StructType:
		r.fields(x.Fields)
		return x
	case *ast.Ellipsis:
		x.Elt = r.expr(x.Elt)
		return x
	}
	return e
}

func (r *rw) fields(fl *ast.FieldList) {
	if fl == nil {
		return
	}
	for _, f := range fl.List {
		f.Type = r.expr(f.Type)
	}
}
func (r *rw) funcType(ft *ast.FuncType) { r.fields(ft.Params); r.fields(ft.Results) }

func (r *rw) block(b *ast.BlockStmt) {
	if b == nil {
		return
	}
	b.List = r.stmts(b.List)
}

// writeYields: insert a scheduling point before every assignment whose target lives on the heap (field, element,
// pointee). Unsynchronised shared-memory writes thereby become visible to the explorer (reads are not instrumented).
var writeYields bool

// sharedYields: only the scheduling points around writes to captured / package-level variables (see sharedVarWrite),
// without the ones before heap writes; used for the codec package, whose encoders write to their buffers all the time.
var sharedYields bool

func heapTarget(e ast.Expr) bool {
	for {
		p, ok := e.(*ast.ParenExpr)
		if !ok {
			break
		}
		e = p.X
	}
	switch e.(type) {
	case *ast.SelectorExpr, *ast.IndexExpr, *ast.StarExpr:
		return true
	}
	return false
}

func needsWriteYield(s ast.Stmt) bool {
	if !writeYields {
		return false
	}
	switch x := s.(type) {
	case *ast.AssignStmt:
		if x.Tok == token.DEFINE {
			return false
		}
		for _, l := range x.Lhs {
			if heapTarget(l) {
				return true
			}
		}
	case *ast.IncDecStmt:
		return heapTarget(x.X)
	}
	return false
}

// sharedVarWrite: the statement assigns to a variable that other goroutines can reach without a pointer: one declared
// outside the innermost enclosing function literal (captured by the closure) or at package level (same file). Such a write
// gets a scheduling point before AND after it, so that another thread can run between the write and the next read.
func (r *rw) sharedVarWrite(s ast.Stmt) bool {
	if !writeYields && !sharedYields {
		return false
	}
	shared := func(e ast.Expr) bool {
		id, ok := e.(*ast.Ident)
		if !ok || id.Obj == nil || id.Obj.Kind != ast.Var || id.Name == "_" {
			return false
		}
		p := id.Obj.Pos()
		if !p.IsValid() {
			return false
		}
		if len(r.lits) > 0 {
			return p < r.lits[len(r.lits)-1]
		}
		return r.decl.IsValid() && p < r.decl && packageLevel[id.Obj]
	}
	switch x := s.(type) {
	case *ast.AssignStmt:
		if x.Tok == token.DEFINE {
			return false
		}
		for _, l := range x.Lhs {
			if shared(l) {
				return true
			}
		}
	case *ast.IncDecStmt:
		return shared(x.X)
	}
	return false
}

// packageLevel holds the objects of the package-level variables of the file being rewritten.
var packageLevel = map[*ast.Object]bool{}

func (r *rw) stmts(in []ast.Stmt) []ast.Stmt {
	var out []ast.Stmt
	for _, s := range in {
		sv := r.sharedVarWrite(s)
		if sv || needsWriteYield(s) {
			out = append(out, &ast.ExprStmt{X: call(sel("zzmc", "WriteYield"))})
		}
		out = append(out, r.stmt(s)...)
		if sv {
			out = append(out, &ast.ExprStmt{X: call(sel("zzmc", "WriteYield"))})
		}
	}
	return out
}

func (r *rw) stmt(s ast.Stmt) []ast.Stmt {
	switch x := s.(type) {
	case *ast.SendStmt:
		return []ast.Stmt{&ast.ExprStmt{X: call(sel("zzmc", "Send"), r.expr(x.Chan), r.expr(x.Value))}}
	case *ast.GoStmt:
		// evaluate function value and args now, run in managed thread
		var pre []ast.Stmt
		c := x.Call
		fn := r.fresh("f")
		pre = append(pre, &ast.AssignStmt{Lhs: []ast.Expr{ast.NewIdent(fn)}, Tok: token.DEFINE, Rhs: []ast.Expr{r.expr(c.Fun)}})
		var args []ast.Expr
		for _, a := range c.Args {
			n := r.fresh("a")
			pre = append(pre, &ast.AssignStmt{Lhs: []ast.Expr{ast.NewIdent(n)}, Tok: token.DEFINE, Rhs: []ast.Expr{r.expr(a)}})
			args = append(args, ast.NewIdent(n))
		}
		body := &ast.BlockStmt{List: []ast.Stmt{&ast.ExprStmt{X: call(ast.NewIdent(fn), args...)}}}
		pre = append(pre, &ast.ExprStmt{X: call(sel("zzmc", "Go"), &ast.FuncLit{Type: &ast.FuncType{Params: &ast.FieldList{}}, Body: body})})
		return []ast.Stmt{&ast.BlockStmt{List: pre}}
	case *ast.SelectStmt:
		return r.selectStmt(x)
	case *ast.ExprStmt:
		x.X = r.expr(x.X)
	case *ast.AssignStmt:
		for i := range x.Lhs {
			x.Lhs[i] = r.expr(x.Lhs[i])
		}
		// v, ok := <-ch
		if len(x.Lhs) == 2 && len(x.Rhs) == 1 {
			if u, ok := x.Rhs[0].(*ast.UnaryExpr); ok && u.Op == token.ARROW {
				x.Rhs[0] = call(sel("zzmc", "Recv2"), r.expr(u.X))
				return []ast.Stmt{x}
			}
		}
		for i := range x.Rhs {
			x.Rhs[i] = r.expr(x.Rhs[i])
		}
	case *ast.DeclStmt:
		if gd, ok := x.Decl.(*ast.GenDecl); ok {
			r.genDecl(gd)
		}
	case *ast.DeferStmt:
		x.Call = r.expr(x.Call).(*ast.CallExpr)
	case *ast.ReturnStmt:
		for i := range x.Results {
			x.Results[i] = r.expr(x.Results[i])
		}
	case *ast.IfStmt:
		if x.Init != nil {
			x.Init = r.stmt(x.Init)[0]
		}
		x.Cond = r.expr(x.Cond)
		r.block(x.Body)
		if x.Else != nil {
			x.Else = r.stmt(x.Else)[0]
		}
	case *ast.ForStmt:
		if x.Init != nil {
			x.Init = r.stmt(x.Init)[0]
		}
		x.Cond = r.expr(x.Cond)
		if x.Post != nil {
			x.Post = r.stmt(x.Post)[0]
		}
		r.block(x.Body)
	case *ast.RangeStmt:
		x.X = r.expr(x.X)
		r.block(x.Body)
	case *ast.BlockStmt:
		r.block(x)
	case *ast.SwitchStmt:
		if x.Init != nil {
			x.Init = r.stmt(x.Init)[0]
		}
		x.Tag = r.expr(x.Tag)
		r.block(x.Body)
	case *ast.TypeSwitchStmt:
		if x.Init != nil {
			x.Init = r.stmt(x.Init)[0]
		}
		x.Assign = r.stmt(x.Assign)[0]
		r.block(x.Body)
	case *ast.CaseClause:
		for i := range x.List {
			x.List[i] = r.expr(x.List[i])
		}
		x.Body = r.stmts(x.Body)
	case *ast.LabeledStmt:
		x.Stmt = r.stmt(x.Stmt)[0]
	case *ast.IncDecStmt:
		x.X = r.expr(x.X)
	}
	return []ast.Stmt{s}
}

func (r *rw) selectStmt(x *ast.SelectStmt) []ast.Stmt {
	var pre []ast.Stmt
	var caseArgs []ast.Expr
	hasDefault := "false"
	sw := &ast.SwitchStmt{Body: &ast.BlockStmt{}}
	idx := 0
	for _, cs := range x.Body.List {
		cc := cs.(*ast.CommClause)
		body := r.stmts(cc.Body)
		if cc.Comm == nil {
			hasDefault = "true"
			sw.Body.List = append(sw.Body.List, &ast.CaseClause{List: nil, Body: body})
			continue
		}
		cn := r.fresh("c")
		var mk ast.Expr
		var head []ast.Stmt
		switch c := cc.Comm.(type) {
		case *ast.SendStmt:
			mk = call(sel("zzmc", "SendCase"), r.expr(c.Chan), r.expr(c.Value))
		case *ast.ExprStmt:
			u := c.X.(*ast.UnaryExpr)
			mk = r.recvCase(u.X)
		case *ast.AssignStmt:
			u := c.Rhs[0].(*ast.UnaryExpr)
			mk = r.recvCase(u.X)
			fn := "Val"
			if len(c.Lhs) == 2 {
				fn = "Get"
			}
			lhs := c.Lhs
			head = append(head, &ast.AssignStmt{Lhs: lhs, Tok: c.Tok, Rhs: []ast.Expr{call(&ast.SelectorExpr{X: ast.NewIdent(cn), Sel: ast.NewIdent(fn)})}})
			if c.Tok == token.DEFINE {
				// silence "declared and not used"
				for _, l := range lhs {
					if id, ok := l.(*ast.Ident); ok && id.Name != "_" {
						head = append(head, &ast.AssignStmt{Lhs: []ast.Expr{ast.NewIdent("_")}, Tok: token.ASSIGN, Rhs: []ast.Expr{ast.NewIdent(id.Name)}})
					}
				}
			}
		}
		pre = append(pre, &ast.AssignStmt{Lhs: []ast.Expr{ast.NewIdent(cn)}, Tok: token.DEFINE, Rhs: []ast.Expr{mk}})
		caseArgs = append(caseArgs, ast.NewIdent(cn))
		sw.Body.List = append(sw.Body.List, &ast.CaseClause{
			List: []ast.Expr{&ast.BasicLit{Kind: token.INT, Value: strconv.Itoa(idx)}},
			Body: append(head, body...),
		})
		idx++
	}
	if hasDefault == "false" {
		sw.Body.List = append(sw.Body.List, &ast.CaseClause{Body: []ast.Stmt{&ast.ExprStmt{X: call(ast.NewIdent("panic"), &ast.BasicLit{Kind: token.STRING, Value: `"zzmc: unreachable"`})}}})
	}
	args := append([]ast.Expr{ast.NewIdent(hasDefault)}, caseArgs...)
	sw.Tag = call(sel("zzmc", "Select"), args...)
	pre = append(pre, sw)
	return []ast.Stmt{&ast.BlockStmt{List: pre}}
}

func (r *rw) recvCase(ch ast.Expr) ast.Expr {
	ch = r.expr(ch)
	if isDoneCall(ch) {
		return call(sel("zzmc", "DoneCase"), ch)
	}
	return call(sel("zzmc", "RecvCase"), ch)
}

func (r *rw) genDecl(gd *ast.GenDecl) {
	for _, sp := range gd.Specs {
		switch s := sp.(type) {
		case *ast.TypeSpec:
			s.Type = r.expr(s.Type)
		case *ast.ValueSpec:
			s.Type = r.expr(s.Type)
			for i := range s.Values {
				s.Values[i] = r.expr(s.Values[i])
			}
		}
	}
}


func rewriteFile(in, out string) error {
	fset := token.NewFileSet()
	f, err := parser.ParseFile(fset, in, nil, parser.ParseComments)
	if err != nil {
		return err
	}
	f.Comments = nil // drop comments: positions get scrambled by rewriting
	r := &rw{}
	hasImportDecl := false
	for _, d := range f.Decls {
		switch x := d.(type) {
		case *ast.GenDecl:
			if x.Tok == token.IMPORT {
				for _, sp := range x.Specs {
					is := sp.(*ast.ImportSpec)
					p, _ := strconv.Unquote(is.Path.Value)
					if np, ok := importRewrite[p]; ok {
						is.Path.Value = strconv.Quote(np)
						if is.Name == nil {
							parts := strings.Split(p, "/")
							is.Name = ast.NewIdent(parts[len(parts)-1])
						}
					}
				}
				if !hasImportDecl {
					x.Specs = append(x.Specs, &ast.ImportSpec{Name: ast.NewIdent("zzmc"), Path: &ast.BasicLit{Kind: token.STRING, Value: strconv.Quote(mcPath)}})
					if x.Lparen == token.NoPos {
						x.Lparen = x.Pos()
						x.Rparen = x.End()
					}
					hasImportDecl = true
				}
				continue
			}
			collectResets(x)
			if x.Tok == token.VAR {
				for _, sp := range x.Specs {
					for _, n := range sp.(*ast.ValueSpec).Names {
						if n.Obj != nil {
							packageLevel[n.Obj] = true
						}
					}
				}
			}
			r.genDecl(x)
		case *ast.FuncDecl:
			r.fields(x.Recv)
			r.funcType(x.Type)
			r.decl = x.Pos()
			r.block(x.Body)
			r.decl = token.NoPos
		}
	}
	if !hasImportDecl {
		gd := &ast.GenDecl{Tok: token.IMPORT, Specs: []ast.Spec{&ast.ImportSpec{Name: ast.NewIdent("zzmc"), Path: &ast.BasicLit{Kind: token.STRING, Value: strconv.Quote(mcPath)}}}}
		f.Decls = append([]ast.Decl{gd}, f.Decls...)
	}
	var buf bytes.Buffer
	if err := format.Node(&buf, fset, f); err != nil {
		return err
	}
	src := buf.String()
	src += "\nvar _ = zzmc.Keep\n"
	// imports that became unused after rewriting (e.g. "time" only used for AfterFunc)
	for _, imp := range []string{"time", "context"} {
		if strings.Contains(src, "\""+imp+"\"") && !strings.Contains(src, imp+".") {
			src = strings.Replace(src, "\""+imp+"\"", "_ \""+imp+"\"", 1)
		}
	}
	for _, imp := range []string{"sync", "atomic"} {
		if strings.Contains(src, imp+" \""+mcPath) && !strings.Contains(src, imp+".") {
			src = strings.Replace(src, imp+" \""+mcPath, "_ \""+mcPath, 1)
		}
	}
	return os.WriteFile(out, []byte(src), 0o644)
}

// usage: instr -repo /repo -mc /verif/mc -out DIR pkg...    (pkg relative to the repo root, "." for the root package)
func main() {
	repo, mcDir, out := "/repo", "/verif/mc", ""
	var pkgs []string
	args := os.Args[1:]
	for i := 0; i < len(args); i++ {
		switch args[i] {
		case "-repo":
			i++
			repo = args[i]
		case "-mc":
			i++
			mcDir = args[i]
		case "-out":
			i++
			out = args[i]
		case "-writeyields":
			writeYields = true
		case "-sharedyields":
			sharedYields = true
		default:
			pkgs = append(pkgs, args[i])
		}
	}
	if out == "" {
		fmt.Fprintln(os.Stderr, "instr: -out required")
		os.Exit(2)
	}
	overlay := map[string]string{}
	for _, pkg := range pkgs {
		dir := filepath.Join(repo, pkg)
		if filepath.IsAbs(pkg) { // a package outside the repository (the harness' own micro-programs)
			dir = pkg
			pkg = "abs" + strings.ReplaceAll(pkg, "/", "_")
		}
		ents, err := os.ReadDir(dir)
		if err != nil {
			fmt.Fprintln(os.Stderr, "instr:", err)
			os.Exit(2)
		}
		odir := filepath.Join(out, "gen", pkg)
		_ = os.MkdirAll(odir, 0o755)
		for _, e := range ents {
			n := e.Name()
			if e.IsDir() || !strings.HasSuffix(n, ".go") || strings.HasSuffix(n, "_test.go") {
				continue
			}
			if err := rewriteFile(filepath.Join(dir, n), filepath.Join(odir, n)); err != nil {
				fmt.Fprintf(os.Stderr, "instr: %s: %v\n", filepath.Join(dir, n), err)
				os.Exit(2)
			}
			overlay[filepath.Join(dir, n)] = filepath.Join(odir, n)
			if pkgName == "" {
				pkgName = packageName(filepath.Join(dir, n))
			}
		}
		// per-package reset of lazily filled caches
		var rb strings.Builder
		fmt.Fprintf(&rb, "package %s\n\n", pkgName)
		if resetNeedsSync {
			fmt.Fprintf(&rb, "import \"sync\"\n\n")
		}
		if resetNeedsAtomic {
			fmt.Fprintf(&rb, "import \"sync/atomic\"\n\n")
		}
		rb.WriteString("// ZZVerifReset re-initialises the package's lazily filled caches (cold-process state).\nfunc ZZVerifReset() {\n")
		for _, st := range resets {
			rb.WriteString("\t" + st + "\n")
		}
		rb.WriteString("}\n")
		rp := filepath.Join(odir, "zz_verif_reset.go")
		raw := filepath.Join(odir, "zz_verif_reset.go.in")
		if err := os.WriteFile(raw, []byte(rb.String()), 0o644); err != nil {
			fmt.Fprintln(os.Stderr, "instr:", err)
			os.Exit(2)
		}
		saved, savedSync := resets, resetNeedsSync
		resetNeedsAtomic = false
		if err := rewriteFile(raw, rp); err != nil { // the reset statements use plain Go (make(chan ...)): rewrite them too
			fmt.Fprintln(os.Stderr, "instr: reset file:", err)
			os.Exit(2)
		}
		resets, resetNeedsSync = saved, savedSync
		_ = os.Remove(raw)
		overlay[filepath.Join(dir, "zz_verif_reset.go")] = rp
		resets, resetNeedsSync, pkgName = nil, false, ""
	}
	// inject the runtime as a virtual package inside the repository's module
	for _, sub := range []string{"", "vsync", "vatomic"} {
		d := filepath.Join(mcDir, sub)
		ents, _ := os.ReadDir(d)
		for _, e := range ents {
			if !e.IsDir() && strings.HasSuffix(e.Name(), ".go") && !strings.HasSuffix(e.Name(), "_test.go") {
				overlay[filepath.Join(repo, "zz_verif", "mc", sub, e.Name())] = filepath.Join(d, e.Name())
			}
		}
	}
	for _, extra := range extraOverlay {
		overlay[extra[0]] = extra[1]
	}
	b, _ := json.MarshalIndent(map[string]any{"Replace": overlay}, "", " ")
	if err := os.WriteFile(filepath.Join(out, "overlay.json"), b, 0o644); err != nil {
		fmt.Fprintln(os.Stderr, "instr:", err)
		os.Exit(2)
	}
}

var extraOverlay [][2]string
var pkgName string

func packageName(file string) string {
	f, err := parser.ParseFile(token.NewFileSet(), file, nil, parser.PackageClauseOnly)
	if err != nil {
		return "main"
	}
	return f.Name.Name
}
