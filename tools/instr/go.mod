module instr

go 1.24.0
