// Package msg builds KMIP messages (rich baselines + bounded deviations) and projects a Go message value to the
// TTLV element tree it is supposed to carry — independently of the library's encoder.
package msg

import (
	"fmt"
	"math/big"
	"reflect"
	"strconv"
	"strings"
	"time"

	"github.com/ovh/kmip-go"
	"github.com/ovh/kmip-go/ttlv"
	"verifharness/pinned"
	"verifharness/refttlv"
)

type N = refttlv.Node

// Projector turns a message value into the reference element tree for protocol version Ver.
// Gate=false disables version gating (used to compare decoded values whatever the version).
type Projector struct {
	Ver  [2]int
	Gate bool
	// OnVersioned is called for every occurrence of a field listed in the pinned version table:
	// populated = the Go value carries it, emitted = the reference tree contains it at this version.
	OnVersioned func(structName, fieldName string, populated, emitted bool)
	dry         int // >0 while walking a subtree that is gated out (accounting only)
}

var (
	tBigInt    = reflect.TypeFor[big.Int]()
	tTime      = reflect.TypeFor[time.Time]()
	tDuration  = reflect.TypeFor[time.Duration]()
	tValue     = reflect.TypeFor[ttlv.Value]()
	tStruct    = reflect.TypeFor[ttlv.Struct]()
	tEnum      = reflect.TypeFor[ttlv.Enum]()
	tReqItem   = reflect.TypeFor[kmip.RequestBatchItem]()
	tRespItem  = reflect.TypeFor[kmip.ResponseBatchItem]()
	tKeyValue  = reflect.TypeFor[kmip.KeyValue]()
	tKeyMat    = reflect.TypeFor[kmip.KeyMaterial]()
	tCredValue = reflect.TypeFor[kmip.CredentialValue]()
	tUnknownPl = reflect.TypeFor[kmip.UnknownPayload]()
)

func tagByName(name string) (uint32, bool) {
	t, ok := pinned.Reg().Tags[name]
	return uint32(t), ok
}

func mustTag(name string) uint32 {
	t, ok := tagByName(name)
	if !ok {
		panic("msg: no pinned tag " + name)
	}
	return t
}

// tagForType: default tag of a Go type = the tag carrying the type's name.
func tagForType(t reflect.Type) (uint32, bool) {
	for t.Kind() == reflect.Pointer || t.Kind() == reflect.Slice || t.Kind() == reflect.Array {
		if t.Kind() == reflect.Slice && t.Elem().Kind() == reflect.Uint8 {
			break
		}
		t = t.Elem()
	}
	return tagByName(t.Name())
}

// Project projects a top-level value (pointer to a message struct, or any value with a default tag).
func (p *Projector) Project(v any) (*N, error) {
	rv := reflect.ValueOf(v)
	t := rv.Type()
	tag, ok := tagForType(t)
	if !ok {
		return nil, fmt.Errorf("no default tag for %s", t)
	}
	ns, err := p.value(tag, rv)
	if err != nil {
		return nil, err
	}
	if len(ns) != 1 {
		return nil, fmt.Errorf("top-level value projects to %d items", len(ns))
	}
	return ns[0], nil
}

func (p *Projector) value(tag uint32, rv reflect.Value) ([]*N, error) {
	if !rv.IsValid() {
		return nil, nil
	}
	switch rv.Kind() {
	case reflect.Pointer:
		if rv.IsNil() {
			return nil, nil
		}
		return p.value(tag, rv.Elem())
	case reflect.Interface:
		if rv.IsNil() {
			return nil, nil
		}
		return p.value(tag, rv.Elem())
	}
	t := rv.Type()
	switch t {
	case tBigInt:
		b := rv.Interface().(big.Int)
		return []*N{{Tag: tag, Type: refttlv.TBigInteger, Big: new(big.Int).Set(&b)}}, nil
	case tTime:
		return []*N{{Tag: tag, Type: refttlv.TDateTime, I: rv.Interface().(time.Time).Unix()}}, nil
	case tDuration:
		return []*N{{Tag: tag, Type: refttlv.TInterval, I: int64(rv.Interface().(time.Duration) / time.Second)}}, nil
	case tEnum:
		return []*N{{Tag: tag, Type: refttlv.TEnumeration, I: int64(rv.Uint())}}, nil
	case tValue:
		gv := rv.Interface().(ttlv.Value)
		return p.generic(tag, gv.Value)
	case tStruct:
		n := &N{Tag: tag, Type: refttlv.TStructure}
		for _, f := range rv.Interface().(ttlv.Struct) {
			k, err := p.generic(uint32(f.Tag), f.Value)
			if err != nil {
				return nil, err
			}
			n.Kids = append(n.Kids, k...)
		}
		return []*N{n}, nil
	case tReqItem:
		it := rv.Interface().(kmip.RequestBatchItem)
		n := &N{Tag: mustTag("BatchItem"), Type: refttlv.TStructure}
		n.Kids = append(n.Kids, &N{Tag: mustTag("Operation"), Type: refttlv.TEnumeration, I: int64(it.Operation)})
		if len(it.UniqueBatchItemID) > 0 {
			n.Kids = append(n.Kids, &N{Tag: mustTag("UniqueBatchItemID"), Type: refttlv.TByteString, S: it.UniqueBatchItemID})
		}
		if err := p.add(n, mustTag("RequestPayload"), reflect.ValueOf(it.RequestPayload)); err != nil {
			return nil, err
		}
		if err := p.add(n, mustTag("MessageExtension"), reflect.ValueOf(it.MessageExtension)); err != nil {
			return nil, err
		}
		return []*N{n}, nil
	case tRespItem:
		it := rv.Interface().(kmip.ResponseBatchItem)
		n := &N{Tag: mustTag("BatchItem"), Type: refttlv.TStructure}
		if it.Operation != 0 {
			n.Kids = append(n.Kids, &N{Tag: mustTag("Operation"), Type: refttlv.TEnumeration, I: int64(it.Operation)})
		}
		if len(it.UniqueBatchItemID) > 0 {
			n.Kids = append(n.Kids, &N{Tag: mustTag("UniqueBatchItemID"), Type: refttlv.TByteString, S: it.UniqueBatchItemID})
		}
		n.Kids = append(n.Kids, &N{Tag: mustTag("ResultStatus"), Type: refttlv.TEnumeration, I: int64(it.ResultStatus)})
		// Result Reason: REQUIRED if Result Status is Failure, otherwise present only when populated
		if it.ResultReason != 0 || it.ResultStatus == kmip.ResultStatusOperationFailed {
			n.Kids = append(n.Kids, &N{Tag: mustTag("ResultReason"), Type: refttlv.TEnumeration, I: int64(it.ResultReason)})
		}
		if it.ResultMessage != "" {
			n.Kids = append(n.Kids, &N{Tag: mustTag("ResultMessage"), Type: refttlv.TTextString, S: []byte(it.ResultMessage)})
		}
		if len(it.AsynchronousCorrelationValue) > 0 {
			n.Kids = append(n.Kids, &N{Tag: mustTag("AsynchronousCorrelationValue"), Type: refttlv.TByteString, S: it.AsynchronousCorrelationValue})
		}
		if err := p.add(n, mustTag("ResponsePayload"), reflect.ValueOf(it.ResponsePayload)); err != nil {
			return nil, err
		}
		if err := p.add(n, mustTag("MessageExtension"), reflect.ValueOf(it.MessageExtension)); err != nil {
			return nil, err
		}
		return []*N{n}, nil
	case tKeyValue:
		kv := rv.Interface().(kmip.KeyValue)
		var out []*N
		if kv.Wrapped != nil {
			out = append(out, &N{Tag: tag, Type: refttlv.TByteString, S: *kv.Wrapped})
		}
		if kv.Plain != nil {
			ns, err := p.value(tag, reflect.ValueOf(kv.Plain))
			if err != nil {
				return nil, err
			}
			out = append(out, ns...)
		}
		return out, nil
	case tKeyMat, tCredValue:
		// exactly the populated variant(s), each under the container's tag
		var out []*N
		for i := 0; i < rv.NumField(); i++ {
			ns, err := p.value(tag, rv.Field(i))
			if err != nil {
				return nil, err
			}
			out = append(out, ns...)
		}
		return out, nil
	case tUnknownPl:
		up := rv.Interface().(kmip.UnknownPayload)
		return p.value(tag, reflect.ValueOf(up.Fields))
	}
	switch rv.Kind() {
	case reflect.String:
		return []*N{{Tag: tag, Type: refttlv.TTextString, S: []byte(rv.String())}}, nil
	case reflect.Bool:
		b := int64(0)
		if rv.Bool() {
			b = 1
		}
		return []*N{{Tag: tag, Type: refttlv.TBoolean, I: b}}, nil
	case reflect.Int8, reflect.Int16, reflect.Int32:
		return []*N{{Tag: tag, Type: refttlv.TInteger, I: rv.Int()}}, nil
	case reflect.Int64, reflect.Int:
		return []*N{{Tag: tag, Type: refttlv.TLongInteger, I: rv.Int()}}, nil
	case reflect.Uint8, reflect.Uint16:
		return []*N{{Tag: tag, Type: refttlv.TInteger, I: int64(rv.Uint())}}, nil
	case reflect.Uint32:
		if _, isEnum := pinned.Reg().Enums[t.Name()]; isEnum || t.Name() != "uint32" {
			return []*N{{Tag: tag, Type: refttlv.TEnumeration, I: int64(rv.Uint())}}, nil
		}
		return []*N{{Tag: tag, Type: refttlv.TLongInteger, I: int64(rv.Uint())}}, nil
	case reflect.Slice:
		if t.Elem().Kind() == reflect.Uint8 {
			return []*N{{Tag: tag, Type: refttlv.TByteString, S: rv.Bytes()}}, nil
		}
		var out []*N
		for i := 0; i < rv.Len(); i++ {
			ns, err := p.value(tag, rv.Index(i))
			if err != nil {
				return nil, err
			}
			out = append(out, ns...)
		}
		return out, nil
	case reflect.Struct:
		n := &N{Tag: tag, Type: refttlv.TStructure}
		for i := 0; i < t.NumField(); i++ {
			f := t.Field(i)
			if !f.IsExported() {
				continue
			}
			name, omitempty := parseTag(f.Tag.Get("ttlv"))
			if name == "-" {
				continue
			}
			fv := rv.Field(i)
			intro, versioned := pinned.Introduced(t.Name(), f.Name)
			populated := !(omitempty && fv.IsZero()) && !((fv.Kind() == reflect.Pointer || fv.Kind() == reflect.Interface || fv.Kind() == reflect.Slice) && fv.IsNil() && !(fv.Kind() == reflect.Slice && fv.Type().Elem().Kind() == reflect.Uint8)) &&
				!(fv.Kind() == reflect.Slice && fv.Type().Elem().Kind() != reflect.Uint8 && fv.Len() == 0)
			gatedOut := p.Gate && versioned && (p.Ver[0] < intro[0] || (p.Ver[0] == intro[0] && p.Ver[1] < intro[1]))
			if versioned && p.OnVersioned != nil {
				p.OnVersioned(t.Name(), f.Name, populated, populated && !gatedOut && p.dry == 0)
			}
			if omitempty && fv.IsZero() {
				continue
			}
			if gatedOut {
				if p.OnVersioned != nil { // account for versioned fields nested below an element that is itself absent
					p.dry++
					_, _ = p.value(1, fv)
					p.dry--
				}
				continue
			}
			ftag, err := fieldTag(f, name, fv)
			if err != nil {
				return nil, fmt.Errorf("%s.%s: %w", t.Name(), f.Name, err)
			}
			if ftag == 0 {
				continue // nil interface without a static tag
			}
			if err := p.add(n, ftag, fv); err != nil {
				return nil, err
			}
		}
		return []*N{n}, nil
	}
	return nil, fmt.Errorf("projection: unsupported kind %s (%s)", rv.Kind(), t)
}

func (p *Projector) add(n *N, tag uint32, rv reflect.Value) error {
	ns, err := p.value(tag, rv)
	if err != nil {
		return err
	}
	n.Kids = append(n.Kids, ns...)
	return nil
}

func parseTag(s string) (name string, omitempty bool) {
	parts := strings.Split(s, ",")
	name = parts[0]
	for _, o := range parts[1:] {
		if o == "omitempty" {
			omitempty = true
		}
	}
	return
}

// fieldTag resolves the tag of a struct field: explicit name / 0x number, the field's name, or the (dynamic) type's name.
func fieldTag(f reflect.StructField, name string, fv reflect.Value) (uint32, error) {
	if name != "" {
		if strings.HasPrefix(name, "0x") {
			n, err := strconv.ParseUint(name[2:], 16, 32)
			return uint32(n), err
		}
		if t, ok := tagByName(name); ok {
			return t, nil
		}
		return 0, fmt.Errorf("unknown tag name %q", name)
	}
	if t, ok := tagByName(f.Name); ok {
		return t, nil
	}
	if t, ok := tagForType(f.Type); ok {
		return t, nil
	}
	if f.Type.Kind() == reflect.Interface {
		if fv.IsNil() {
			return 0, nil
		}
		if t, ok := tagForType(fv.Elem().Type()); ok {
			return t, nil
		}
		return 0, fmt.Errorf("no tag for dynamic type %s", fv.Elem().Type())
	}
	return 0, fmt.Errorf("no tag")
}

// generic projects the dynamic content of a generic TTLV value.
func (p *Projector) generic(tag uint32, v any) ([]*N, error) {
	switch x := v.(type) {
	case nil:
		return nil, fmt.Errorf("generic value with nil content under tag %06X", tag)
	case int32:
		return []*N{{Tag: tag, Type: refttlv.TInteger, I: int64(x)}}, nil
	case int64:
		return []*N{{Tag: tag, Type: refttlv.TLongInteger, I: x}}, nil
	case *big.Int:
		return []*N{{Tag: tag, Type: refttlv.TBigInteger, Big: x}}, nil
	case ttlv.Enum:
		return []*N{{Tag: tag, Type: refttlv.TEnumeration, I: int64(uint32(x))}}, nil
	case bool:
		b := int64(0)
		if x {
			b = 1
		}
		return []*N{{Tag: tag, Type: refttlv.TBoolean, I: b}}, nil
	case string:
		return []*N{{Tag: tag, Type: refttlv.TTextString, S: []byte(x)}}, nil
	case []byte:
		return []*N{{Tag: tag, Type: refttlv.TByteString, S: x}}, nil
	case time.Time:
		return []*N{{Tag: tag, Type: refttlv.TDateTime, I: x.Unix()}}, nil
	case time.Duration:
		return []*N{{Tag: tag, Type: refttlv.TInterval, I: int64(x / time.Second)}}, nil
	case ttlv.Struct:
		return p.value(tag, reflect.ValueOf(x))
	case ttlv.Value:
		return p.generic(tag, x.Value)
	}
	return p.value(tag, reflect.ValueOf(v))
}
