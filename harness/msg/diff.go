package msg

import (
	"fmt"
	"sync"

	"verifharness/pinned"
	"verifharness/refttlv"
)

var tagNames map[uint32]string
var tagNamesOnce sync.Once

func TagName(t uint32) string {
	tagNamesOnce.Do(func() {
		m := map[uint32]string{}
		for n, v := range pinned.Reg().Tags {
			m[uint32(v)] = n
		}
		tagNames = m
	})
	if n, ok := tagNames[t]; ok {
		return n
	}
	return fmt.Sprintf("0x%06X", t)
}

// Diff returns "" when the trees are equal, otherwise a short class ("missing|extra|value|type") and the
// path (tag names) of the first difference; want is the reference.
func Diff(got, want *refttlv.Node) (class, path string) {
	return diff(got, want, "")
}

func diff(got, want *refttlv.Node, path string) (string, string) {
	p := path + "/" + TagName(want.Tag)
	if got.Tag != want.Tag {
		return "tag", p + "≠" + TagName(got.Tag)
	}
	if got.Type != want.Type {
		return "type", p
	}
	if want.Type != refttlv.TStructure {
		if !refttlv.Equal(got, want) {
			return "value", p
		}
		return "", ""
	}
	for i := 0; i < len(want.Kids) || i < len(got.Kids); i++ {
		switch {
		case i >= len(got.Kids):
			return "missing", p + "/" + TagName(want.Kids[i].Tag)
		case i >= len(want.Kids):
			return "extra", p + "/" + TagName(got.Kids[i].Tag)
		}
		if got.Kids[i].Tag != want.Kids[i].Tag {
			// decide whether something is missing or extra by looking one ahead
			if i+1 < len(got.Kids) && got.Kids[i+1].Tag == want.Kids[i].Tag {
				return "extra", p + "/" + TagName(got.Kids[i].Tag)
			}
			if i+1 < len(want.Kids) && want.Kids[i+1].Tag == got.Kids[i].Tag {
				return "missing", p + "/" + TagName(want.Kids[i].Tag)
			}
			return "order", p + "/" + TagName(want.Kids[i].Tag) + "≠" + TagName(got.Kids[i].Tag)
		}
		if c, pp := diff(got.Kids[i], want.Kids[i], p); c != "" {
			return c, pp
		}
	}
	return "", ""
}
