package msg

import (
	"fmt"
	"math"
	"math/big"
	"reflect"
	"strings"
	"time"

	"github.com/ovh/kmip-go"
	"github.com/ovh/kmip-go/ttlv"
	"verifharness/pinned"
)

// Site is one place of a message where a value from a finite alphabet can be substituted.
type Site struct {
	Path   string
	Parent string // path of the enclosing structure
	N      int
	Apply  func(i int) (undo func())
	Desc   func(i int) string
}

// fields that are coupled to something else and therefore not varied on their own
var skipSites = map[string]bool{
	"RequestHeader.ProtocolVersion": true, "ResponseHeader.ProtocolVersion": true,
	"RequestHeader.BatchCount": true, "ResponseHeader.BatchCount": true,
	"RequestBatchItem.Operation": true, "ResponseBatchItem.Operation": true,
	"RequestBatchItem.RequestPayload": false, "ResponseBatchItem.ResponsePayload": false,
}

var strAlphabet = []string{"", "a", "abcdefg", "abcdefgh", "abcdefghi", "é€\U0001F600", "q\"uo<t>&e\\s"}
var bytesAlphabet = [][]byte{nil, {0}, {0xFF, 0xFE, 0xFD, 0xFC, 0xFB, 0xFA, 0xF9, 0xF8}, {1, 2, 3, 4, 5, 6, 7, 8, 9}, make([]byte, 17)}
var int32Alphabet = []int64{0, 1, -1, math.MinInt32, math.MaxInt32}
var int64Alphabet = []int64{0, 1, -1, 1<<52 - 1, 1 << 52, -(1 << 52), 1<<52 + 1, math.MinInt64, math.MaxInt64}
var dateAlphabet = []int64{0, 1, -1, 1 << 31, -62135596800, 253402300799}
var intervalAlphabet = []int64{0, 1, 1 << 31, 1<<32 - 1}

func bigAlphabet() []*big.Int { return BigValues() }

func maskAlphabet(t reflect.Type) []int64 {
	out := []int64{0}
	for b := 0; b < 32; b++ {
		out = append(out, int64(int32(uint32(1)<<uint(b))))
	}
	named := int64(0)
	for i := range pinned.Reg().Masks[t.Name()] {
		named |= 1 << uint(i)
	}
	return append(out, named, -1)
}

func setter(v reflect.Value, vals []reflect.Value, descs []string, path, parent string) Site {
	return Site{Path: path, Parent: parent, N: len(vals),
		Apply: func(i int) func() {
			old := reflect.New(v.Type()).Elem()
			old.Set(v)
			v.Set(vals[i])
			return func() { v.Set(old) }
		},
		Desc: func(i int) string { return descs[i] }}
}

// Sites lists the substitution sites of a message (root = addressable struct value).
func Sites(root reflect.Value) []Site {
	var out []Site
	walk(root, root.Type().Name(), "", &out, nil)
	return out
}

func walk(v reflect.Value, path, parent string, out *[]Site, owner *reflect.Value) {
	t := v.Type()
	mk := func(vals []any, conv func(any) reflect.Value) {
		var rv []reflect.Value
		var ds []string
		for _, x := range vals {
			rv = append(rv, conv(x))
			ds = append(ds, fmt.Sprintf("%v", x))
		}
		*out = append(*out, setter(v, rv, ds, path, parent))
	}
	asT := func(x any) reflect.Value { return reflect.ValueOf(x).Convert(t) }
	// atomic units with their own alternative lists
	switch t {
	case tAttribute:
		var vals []any
		for _, a := range StdAttributes() {
			vals = append(vals, a)
		}
		for _, a := range CustomAttributes() {
			vals = append(vals, a)
		}
		var rv []reflect.Value
		var ds []string
		for _, x := range vals {
			rv = append(rv, reflect.ValueOf(x))
			ds = append(ds, "attribute "+string(x.(kmip.Attribute).AttributeName))
		}
		*out = append(*out, setter(v, rv, ds, path, parent))
		return
	case tKeyBlock:
		var rv []reflect.Value
		var ds []string
		for i, x := range KeyBlocks() {
			rv = append(rv, reflect.ValueOf(x))
			ds = append(ds, fmt.Sprintf("keyblock#%d format %d", i, x.KeyFormatType))
		}
		*out = append(*out, setter(v, rv, ds, path, parent))
		return
	case tCred:
		var rv []reflect.Value
		var ds []string
		for i, x := range Credentials() {
			rv = append(rv, reflect.ValueOf(x))
			ds = append(ds, fmt.Sprintf("credential#%d", i))
		}
		*out = append(*out, setter(v, rv, ds, path, parent))
		return
	case tProtoVer:
		return
	case tValue:
		mk([]any{ttlv.Value{Tag: 0x540009, Value: int32(5)}, ttlv.Value{Tag: 0x540009, Value: "txt"}, ttlv.Value{Tag: 0x540009, Value: ttlv.Struct{}}}, func(x any) reflect.Value { return reflect.ValueOf(x) })
		return
	case tStruct:
		mk([]any{ttlv.Struct{}, ttlv.Struct{{Tag: 0x540004, Value: big.NewInt(-1)}, {Tag: 0x540005, Value: ttlv.Struct{{Tag: 0x540006, Value: true}}}}}, func(x any) reflect.Value { return reflect.ValueOf(x) })
		return
	case tBigInt:
		var vals []any
		for _, b := range bigAlphabet() {
			vals = append(vals, *b)
		}
		mk(vals, func(x any) reflect.Value { return reflect.ValueOf(x) })
		return
	case tTime:
		var vals []any
		for _, s := range dateAlphabet {
			vals = append(vals, time.Unix(s, 0))
		}
		mk(vals, func(x any) reflect.Value { return reflect.ValueOf(x) })
		return
	case tDuration:
		var vals []any
		for _, s := range intervalAlphabet {
			vals = append(vals, time.Duration(s)*time.Second)
		}
		mk(vals, func(x any) reflect.Value { return reflect.ValueOf(x) })
		return
	}
	switch t.Kind() {
	case reflect.String:
		var vals []any
		for _, s := range strAlphabet {
			vals = append(vals, s)
		}
		mk(vals, asT)
	case reflect.Bool:
		mk([]any{false, true}, asT)
	case reflect.Int8, reflect.Int16, reflect.Int32:
		al := int32Alphabet
		if isMask(t) {
			al = maskAlphabet(t)
		}
		var vals []any
		for _, x := range al {
			vals = append(vals, x)
		}
		mk(vals, asT)
	case reflect.Int64, reflect.Int:
		var vals []any
		for _, x := range int64Alphabet {
			vals = append(vals, x)
		}
		mk(vals, asT)
	case reflect.Uint32:
		var vals []any
		for _, x := range enumValues(t) {
			vals = append(vals, x)
		}
		mk(vals, asT)
	case reflect.Uint8, reflect.Uint16:
		mk([]any{uint8(0), uint8(1), uint8(255)}, asT)
	case reflect.Slice:
		if t.Elem().Kind() == reflect.Uint8 {
			var vals []any
			for _, b := range bytesAlphabet {
				vals = append(vals, b)
			}
			mk(vals, asT)
			return
		}
		// lengths 0 and 2 (second element freshly filled), then the sites of element 0
		empty := reflect.MakeSlice(t, 0, 0)
		two := reflect.MakeSlice(t, 2, 2)
		fill(two.Index(0), 0)
		fill(two.Index(1), 0)
		if t.Elem() == tAttribute {
			two.Index(1).Set(reflect.ValueOf(StdAttributes()[1]))
		}
		if t.Elem() != tReqItem && t.Elem() != tRespItem { // batches of several items are built by ExtraCases (items need a payload)
			*out = append(*out, setter(v, []reflect.Value{reflect.Zero(t), empty, two}, []string{"nil slice", "empty slice", "two elements"}, path+"[]", parent))
		}
		if v.Len() > 0 {
			walk(v.Index(0), path+"[0]", parent, out, nil)
		}
	case reflect.Pointer:
		full := reflect.New(t.Elem())
		fill(full.Elem(), 0)
		*out = append(*out, setter(v, []reflect.Value{reflect.Zero(t), full}, []string{"nil", "populated"}, path+"*", parent))
		if !v.IsNil() {
			walk(v.Elem(), path, parent, out, nil)
		}
	case reflect.Interface:
		if t == tObject {
			var rv []reflect.Value
			var ds []string
			for _, o := range Objects() {
				rv = append(rv, reflect.ValueOf(o))
				ds = append(ds, fmt.Sprintf("object %T", o))
			}
			s := setter(v, rv, ds, path, parent)
			if owner != nil {
				ow := *owner
				inner := s.Apply
				s.Apply = func(i int) func() {
					oldOwner := reflect.New(ow.Type()).Elem()
					oldOwner.Set(ow)
					inner(i)
					fixConstraints(ow)
					return func() { ow.Set(oldOwner) }
				}
			}
			*out = append(*out, s)
			// and the sites inside the current object (its key block, ...)
			if !v.IsNil() && v.Elem().Kind() == reflect.Pointer && v.Elem().Elem().Kind() == reflect.Struct {
				walk(v.Elem().Elem(), path+"<"+v.Elem().Elem().Type().Name()+">", parent, out, nil)
			}
			return
		}
		if !v.IsNil() && v.Elem().Kind() == reflect.Pointer && v.Elem().Elem().Kind() == reflect.Struct {
			walk(v.Elem().Elem(), path, parent, out, nil)
		}
	case reflect.Struct:
		for i := 0; i < t.NumField(); i++ {
			f := t.Field(i)
			if !f.IsExported() {
				continue
			}
			if n, _ := parseTag(f.Tag.Get("ttlv")); n == "-" {
				continue
			}
			key := t.Name() + "." + f.Name
			if skipSites[key] {
				continue
			}
			// ObjectType coupled to a sibling Object; Import's attributes coupled to its object
			if _, has := t.FieldByName("Object"); has && (f.Name == "ObjectType" || (t.Name() == "ImportRequestPayload" && f.Name == "Attribute")) {
				continue
			}
			vv := v
			walk(v.Field(i), path+"."+f.Name, path, out, &vv)
		}
	}
}

// PathDepth is used to decide whether two sites are related (same parent or ancestor/descendant).
func Related(a, b Site) bool {
	return a.Parent == b.Parent || strings.HasPrefix(b.Path, a.Path) || strings.HasPrefix(a.Path, b.Path) ||
		strings.HasPrefix(b.Parent, a.Path) || strings.HasPrefix(a.Parent, b.Path)
}
