package msg

import (
	"fmt"
	"math"
	"math/big"
	"reflect"
	"sort"
	"time"

	"github.com/ovh/kmip-go"
	"github.com/ovh/kmip-go/payloads"
	"github.com/ovh/kmip-go/ttlv"
	"verifharness/enum"
	"verifharness/pinned"
)

// PayloadTypes: operation -> {request, response} payload struct types (hand-maintained list of the 27 implemented operations).
var PayloadTypes = map[kmip.Operation][2]reflect.Type{
	kmip.OperationActivate:           {reflect.TypeFor[payloads.ActivateRequestPayload](), reflect.TypeFor[payloads.ActivateResponsePayload]()},
	kmip.OperationAddAttribute:       {reflect.TypeFor[payloads.AddAttributeRequestPayload](), reflect.TypeFor[payloads.AddAttributeResponsePayload]()},
	kmip.OperationArchive:            {reflect.TypeFor[payloads.ArchiveRequestPayload](), reflect.TypeFor[payloads.ArchiveResponsePayload]()},
	kmip.OperationRecover:            {reflect.TypeFor[payloads.RecoverRequestPayload](), reflect.TypeFor[payloads.RecoverResponsePayload]()},
	kmip.OperationCreate:             {reflect.TypeFor[payloads.CreateRequestPayload](), reflect.TypeFor[payloads.CreateResponsePayload]()},
	kmip.OperationCreateKeyPair:      {reflect.TypeFor[payloads.CreateKeyPairRequestPayload](), reflect.TypeFor[payloads.CreateKeyPairResponsePayload]()},
	kmip.OperationDeleteAttribute:    {reflect.TypeFor[payloads.DeleteAttributeRequestPayload](), reflect.TypeFor[payloads.DeleteAttributeResponsePayload]()},
	kmip.OperationDestroy:            {reflect.TypeFor[payloads.DestroyRequestPayload](), reflect.TypeFor[payloads.DestroyResponsePayload]()},
	kmip.OperationDiscoverVersions:   {reflect.TypeFor[payloads.DiscoverVersionsRequestPayload](), reflect.TypeFor[payloads.DiscoverVersionsResponsePayload]()},
	kmip.OperationEncrypt:            {reflect.TypeFor[payloads.EncryptRequestPayload](), reflect.TypeFor[payloads.EncryptResponsePayload]()},
	kmip.OperationDecrypt:            {reflect.TypeFor[payloads.DecryptRequestPayload](), reflect.TypeFor[payloads.DecryptResponsePayload]()},
	kmip.OperationGet:                {reflect.TypeFor[payloads.GetRequestPayload](), reflect.TypeFor[payloads.GetResponsePayload]()},
	kmip.OperationGetAttributeList:   {reflect.TypeFor[payloads.GetAttributeListRequestPayload](), reflect.TypeFor[payloads.GetAttributeListResponsePayload]()},
	kmip.OperationGetAttributes:      {reflect.TypeFor[payloads.GetAttributesRequestPayload](), reflect.TypeFor[payloads.GetAttributesResponsePayload]()},
	kmip.OperationGetUsageAllocation: {reflect.TypeFor[payloads.GetUsageAllocationRequestPayload](), reflect.TypeFor[payloads.GetUsageAllocationResponsePayload]()},
	kmip.OperationImport:             {reflect.TypeFor[payloads.ImportRequestPayload](), reflect.TypeFor[payloads.ImportResponsePayload]()},
	kmip.OperationExport:             {reflect.TypeFor[payloads.ExportRequestPayload](), reflect.TypeFor[payloads.ExportResponsePayload]()},
	kmip.OperationLocate:             {reflect.TypeFor[payloads.LocateRequestPayload](), reflect.TypeFor[payloads.LocateResponsePayload]()},
	kmip.OperationModifyAttribute:    {reflect.TypeFor[payloads.ModifyAttributeRequestPayload](), reflect.TypeFor[payloads.ModifyAttributeResponsePayload]()},
	kmip.OperationObtainLease:        {reflect.TypeFor[payloads.ObtainLeaseRequestPayload](), reflect.TypeFor[payloads.ObtainLeaseResponsePayload]()},
	kmip.OperationQuery:              {reflect.TypeFor[payloads.QueryRequestPayload](), reflect.TypeFor[payloads.QueryResponsePayload]()},
	kmip.OperationRegister:           {reflect.TypeFor[payloads.RegisterRequestPayload](), reflect.TypeFor[payloads.RegisterResponsePayload]()},
	kmip.OperationReKey:              {reflect.TypeFor[payloads.RekeyRequestPayload](), reflect.TypeFor[payloads.RekeyResponsePayload]()},
	kmip.OperationReKeyKeyPair:       {reflect.TypeFor[payloads.RekeyKeyPairRequestPayload](), reflect.TypeFor[payloads.RekeyKeyPairResponsePayload]()},
	kmip.OperationRevoke:             {reflect.TypeFor[payloads.RevokeRequestPayload](), reflect.TypeFor[payloads.RevokeResponsePayload]()},
	kmip.OperationSign:               {reflect.TypeFor[payloads.SignRequestPayload](), reflect.TypeFor[payloads.SignResponsePayload]()},
	kmip.OperationSignatureVerify:    {reflect.TypeFor[payloads.SignatureVerifyRequestPayload](), reflect.TypeFor[payloads.SignatureVerifyResponsePayload]()},
}

func Operations() []kmip.Operation {
	var ops []kmip.Operation
	for op := range PayloadTypes {
		ops = append(ops, op)
	}
	sort.Slice(ops, func(i, j int) bool { return ops[i] < ops[j] })
	return ops
}

var Versions = []kmip.ProtocolVersion{kmip.V1_0, kmip.V1_1, kmip.V1_2, kmip.V1_3, kmip.V1_4}

var (
	tObject    = reflect.TypeFor[kmip.Object]()
	tPayload   = reflect.TypeFor[kmip.OperationPayload]()
	tAttribute = reflect.TypeFor[kmip.Attribute]()
	tKeyBlock  = reflect.TypeFor[kmip.KeyBlock]()
	tCred      = reflect.TypeFor[kmip.Credential]()
	tAny       = reflect.TypeFor[any]()
	tProtoVer  = reflect.TypeFor[kmip.ProtocolVersion]()
	tObjType   = reflect.TypeFor[kmip.ObjectType]()
)

func firstEnum(t reflect.Type) uint32 {
	if vals, ok := pinned.Reg().Enums[t.Name()]; ok {
		min := uint32(math.MaxUint32)
		for _, v := range vals {
			if v < min {
				min = v
			}
		}
		return min
	}
	return 1
}

func enumValues(t reflect.Type) []uint32 {
	var out []uint32
	max := uint32(0)
	if vals, ok := pinned.Reg().Enums[t.Name()]; ok {
		for _, v := range vals {
			out = append(out, v)
			if v > max {
				max = v
			}
		}
		sort.Slice(out, func(i, j int) bool { return out[i] < out[j] })
	}
	return append(out, 0, max+1, 0xFFFFFFFF)
}

func isMask(t reflect.Type) bool { _, ok := pinned.Reg().Masks[t.Name()]; return ok }

func int32p(v int32) *int32 { return &v }

// StdAttributes: the 50 standard attribute names with a well-typed sample value each.
func StdAttributes() []kmip.Attribute {
	d := time.Unix(1700000000, 0)
	return []kmip.Attribute{
		{AttributeName: kmip.AttributeNameUniqueIdentifier, AttributeValue: "uid-1"},
		{AttributeName: kmip.AttributeNameName, AttributeValue: kmip.Name{NameValue: "n", NameType: kmip.NameTypeUninterpretedTextString}},
		{AttributeName: kmip.AttributeNameObjectType, AttributeValue: kmip.ObjectTypeSymmetricKey},
		{AttributeName: kmip.AttributeNameOperationPolicyName, AttributeValue: "default"},
		{AttributeName: kmip.AttributeNameObjectGroup, AttributeValue: "grp"},
		{AttributeName: kmip.AttributeNameContactInformation, AttributeValue: "me"},
		{AttributeName: kmip.AttributeNameInitialDate, AttributeValue: d},
		{AttributeName: kmip.AttributeNameActivationDate, AttributeValue: d},
		{AttributeName: kmip.AttributeNameProcessStartDate, AttributeValue: d},
		{AttributeName: kmip.AttributeNameProtectStopDate, AttributeValue: d},
		{AttributeName: kmip.AttributeNameDeactivationDate, AttributeValue: d},
		{AttributeName: kmip.AttributeNameDestroyDate, AttributeValue: d},
		{AttributeName: kmip.AttributeNameCompromiseOccurrenceDate, AttributeValue: d},
		{AttributeName: kmip.AttributeNameCompromiseDate, AttributeValue: d},
		{AttributeName: kmip.AttributeNameArchiveDate, AttributeValue: d},
		{AttributeName: kmip.AttributeNameLastChangeDate, AttributeValue: d},
		{AttributeName: kmip.AttributeNameCryptographicLength, AttributeValue: int32(256)},
		{AttributeName: kmip.AttributeNameLeaseTime, AttributeValue: 3600 * time.Second},
		{AttributeName: kmip.AttributeNameCryptographicAlgorithm, AttributeValue: kmip.CryptographicAlgorithmAES},
		{AttributeName: kmip.AttributeNameCryptographicParameters, AttributeValue: kmip.CryptographicParameters{BlockCipherMode: kmip.BlockCipherModeCBC, TagLength: 12, SaltLength: int32p(4)}},
		{AttributeName: kmip.AttributeNameCryptographicDomainParameters, AttributeValue: kmip.CryptographicDomainParameters{Qlength: 256, RecommendedCurve: kmip.RecommendedCurveP_256}},
		{AttributeName: kmip.AttributeNameCertificateType, AttributeValue: kmip.CertificateTypeX_509},
		{AttributeName: kmip.AttributeNameDigest, AttributeValue: kmip.Digest{HashingAlgorithm: kmip.HashingAlgorithmSHA_256, DigestValue: []byte{1, 2}, KeyFormatType: kmip.KeyFormatTypeRaw}},
		{AttributeName: kmip.AttributeNameCryptographicUsageMask, AttributeValue: kmip.CryptographicUsageEncrypt | kmip.CryptographicUsageDecrypt},
		{AttributeName: kmip.AttributeNameState, AttributeValue: kmip.StateActive},
		{AttributeName: kmip.AttributeNameRevocationReason, AttributeValue: kmip.RevocationReason{RevocationReasonCode: kmip.RevocationReasonCodeKeyCompromise, RevocationMessage: "m"}},
		{AttributeName: kmip.AttributeNameLink, AttributeValue: kmip.Link{LinkType: kmip.LinkTypePublicKeyLink, LinkedObjectIdentifier: "x"}},
		{AttributeName: kmip.AttributeNameCertificateIdentifier, AttributeValue: kmip.CertificateIdentifier{Issuer: "i", SerialNumber: "1"}},
		{AttributeName: kmip.AttributeNameCertificateSubject, AttributeValue: kmip.CertificateSubject{CertificateSubjectDistinguishedName: "cn"}},
		{AttributeName: kmip.AttributeNameCertificateIssuer, AttributeValue: kmip.CertificateIssuer{CertificateIssuerDistinguishedName: "cn"}},
		{AttributeName: kmip.AttributeNameUsageLimits, AttributeValue: kmip.UsageLimits{UsageLimitsTotal: 10, UsageLimitsCount: int64p(5), UsageLimitsUnit: kmip.UsageLimitsUnitByte}},
		{AttributeName: kmip.AttributeNameApplicationSpecificInformation, AttributeValue: kmip.ApplicationSpecificInformation{ApplicationNamespace: "ns", ApplicationData: "d"}},
		{AttributeName: kmip.AttributeNameCertificateLength, AttributeValue: int32(100)},
		{AttributeName: kmip.AttributeNameFresh, AttributeValue: true},
		{AttributeName: kmip.AttributeNameX509CertificateIdentifier, AttributeValue: kmip.X_509CertificateIdentifier{IssuerDistinguishedName: []byte{1}, CertificateSerialNumber: []byte{2}}},
		{AttributeName: kmip.AttributeNameX509CertificateSubject, AttributeValue: kmip.X_509CertificateSubject{SubjectDistinguishedName: []byte{1}}},
		{AttributeName: kmip.AttributeNameX509CertificateIssuer, AttributeValue: kmip.X_509CertificateIssuer{IssuerDistinguishedName: []byte{1}}},
		{AttributeName: kmip.AttributeNameDigitalSignatureAlgorithm, AttributeValue: kmip.DigitalSignatureAlgorithmSHA_256WithRSAEncryption},
		{AttributeName: kmip.AttributeNameAlternativeName, AttributeValue: kmip.AlternativeName{AlternativeNameValue: "alt", AlternativeNameType: kmip.AlternativeNameTypeUninterpretedTextString}},
		{AttributeName: kmip.AttributeNameKeyValuePresent, AttributeValue: false},
		{AttributeName: kmip.AttributeNameKeyValueLocation, AttributeValue: kmip.KeyValueLocation{KeyValueLocationValue: "loc", KeyValueLocationType: kmip.KeyValueLocationTypeUninterpretedTextString}},
		{AttributeName: kmip.AttributeNameOriginalCreationDate, AttributeValue: d},
		{AttributeName: kmip.AttributeNameRandomNumberGenerator, AttributeValue: kmip.RNGParameters{RNGAlgorithm: kmip.RNGAlgorithmDRBG}},
		{AttributeName: kmip.AttributeNamePKCS_12FriendlyName, AttributeValue: "fn"},
		{AttributeName: kmip.AttributeNameDescription, AttributeValue: "desc"},
		{AttributeName: kmip.AttributeNameComment, AttributeValue: "c"},
		{AttributeName: kmip.AttributeNameSensitive, AttributeValue: true},
		{AttributeName: kmip.AttributeNameAlwaysSensitive, AttributeValue: false},
		{AttributeName: kmip.AttributeNameExtractable, AttributeValue: true},
		{AttributeName: kmip.AttributeNameNeverExtractable, AttributeValue: false},
	}
}

func int64p(v int64) *int64 { return &v }

// CustomAttributes: custom (x-/y-) and unknown names with a value of each of the ten TTLV kinds.
func CustomAttributes() []kmip.Attribute {
	// a generic enumeration is carried the way the decoder represents it (a raw ttlv.Enum in an `any` slot is
	// encoded through reflection as an unsigned integer, which is outside what the property calls well-formed)
	vals := []any{int32(-5), int64(1) << 40, big.NewInt(-129), ttlv.Value{Tag: 0x42000B, Value: ttlv.Enum(7)}, true, "text", []byte{9, 8, 7}, time.Unix(1600000000, 0), 90 * time.Second,
		ttlv.Struct{{Tag: 0x540001, Value: "in"}, {Tag: 0x540002, Value: int32(2)}}}
	var out []kmip.Attribute
	for i, v := range vals {
		name := fmt.Sprintf("x-custom-%d", i)
		if i%3 == 1 {
			name = fmt.Sprintf("y-custom-%d", i)
		}
		out = append(out, kmip.Attribute{AttributeName: kmip.AttributeName(name), AttributeValue: v})
		if i < 3 {
			out = append(out, kmip.Attribute{AttributeName: kmip.AttributeName(fmt.Sprintf("Vendor Attribute %d", i)), AttributeIndex: int32p(int32(i)), AttributeValue: v})
		}
	}
	return out
}

func bytesp(b []byte) *[]byte { return &b }

// KeyBlocks: every key format with its matching material, plus wrapped and metadata-only forms.
func KeyBlocks() []kmip.KeyBlock {
	attr := []kmip.Attribute{{AttributeName: kmip.AttributeNameCryptographicLength, AttributeValue: int32(128)}}
	plain := func(m kmip.KeyMaterial) *kmip.KeyValue {
		return &kmip.KeyValue{Plain: &kmip.PlainKeyValue{KeyMaterial: m, Attribute: attr}}
	}
	raw := bytesp([]byte{1, 2, 3, 4, 5, 6, 7, 8, 9})
	var out []kmip.KeyBlock
	for _, f := range []kmip.KeyFormatType{kmip.KeyFormatTypeRaw, kmip.KeyFormatTypeOpaque, kmip.KeyFormatTypePKCS_1, kmip.KeyFormatTypePKCS_8, kmip.KeyFormatTypeX_509, kmip.KeyFormatTypeECPrivateKey} {
		out = append(out, kmip.KeyBlock{KeyFormatType: f, KeyValue: plain(kmip.KeyMaterial{Bytes: raw}), CryptographicAlgorithm: kmip.CryptographicAlgorithmAES, CryptographicLength: 72})
	}
	neg := new(big.Int).Neg(new(big.Int).Lsh(big.NewInt(1), 63))
	big2 := new(big.Int).Lsh(big.NewInt(1), 64)
	out = append(out,
		kmip.KeyBlock{KeyFormatType: kmip.KeyFormatTypeTransparentSymmetricKey, KeyValue: plain(kmip.KeyMaterial{TransparentSymmetricKey: &kmip.TransparentSymmetricKey{Key: []byte{1, 2, 3}}})},
		kmip.KeyBlock{KeyFormatType: kmip.KeyFormatTypeTransparentRSAPrivateKey, KeyValue: plain(kmip.KeyMaterial{TransparentRSAPrivateKey: &kmip.TransparentRSAPrivateKey{
			Modulus: *big2, PrivateExponent: big.NewInt(65537), PublicExponent: big.NewInt(3), P: big.NewInt(255), Q: big.NewInt(128), PrimeExponentP: big.NewInt(1), PrimeExponentQ: neg, CRTCoefficient: big.NewInt(0)}})},
		kmip.KeyBlock{KeyFormatType: kmip.KeyFormatTypeTransparentRSAPrivateKey, KeyValue: plain(kmip.KeyMaterial{TransparentRSAPrivateKey: &kmip.TransparentRSAPrivateKey{Modulus: *big.NewInt(77)}})},
		kmip.KeyBlock{KeyFormatType: kmip.KeyFormatTypeTransparentRSAPublicKey, KeyValue: plain(kmip.KeyMaterial{TransparentRSAPublicKey: &kmip.TransparentRSAPublicKey{Modulus: *big2, PublicExponent: *big.NewInt(65537)}})},
		kmip.KeyBlock{KeyFormatType: kmip.KeyFormatTypeTransparentECDSAPrivateKey, KeyValue: plain(kmip.KeyMaterial{TransparentECDSAPrivateKey: &kmip.TransparentECDSAPrivateKey{RecommendedCurve: kmip.RecommendedCurveP_256, D: *big.NewInt(12345)}})},
		kmip.KeyBlock{KeyFormatType: kmip.KeyFormatTypeTransparentECDSAPublicKey, KeyValue: plain(kmip.KeyMaterial{TransparentECDSAPublicKey: &kmip.TransparentECDSAPublicKey{RecommendedCurve: kmip.RecommendedCurveP_256, QString: []byte{4, 1, 2}}})},
		kmip.KeyBlock{KeyFormatType: kmip.KeyFormatTypeTransparentECPrivateKey, KeyValue: plain(kmip.KeyMaterial{TransparentECPrivateKey: &kmip.TransparentECPrivateKey{RecommendedCurve: kmip.RecommendedCurveP_384, D: *big.NewInt(255)}})},
		kmip.KeyBlock{KeyFormatType: kmip.KeyFormatTypeTransparentECPublicKey, KeyValue: plain(kmip.KeyMaterial{TransparentECPublicKey: &kmip.TransparentECPublicKey{RecommendedCurve: kmip.RecommendedCurveP_521, QString: []byte{4, 9}}})},
		// wrapped key value
		kmip.KeyBlock{KeyFormatType: kmip.KeyFormatTypeRaw, KeyValue: &kmip.KeyValue{Wrapped: bytesp([]byte{0xAA, 0xBB})}, KeyWrappingData: &kmip.KeyWrappingData{
			WrappingMethod: kmip.WrappingMethodEncrypt, EncryptionKeyInformation: &kmip.EncryptionKeyInformation{UniqueIdentifier: "kek", CryptographicParameters: &kmip.CryptographicParameters{BlockCipherMode: kmip.BlockCipherModeNISTKeyWrap}},
			MACSignatureKeyInformation: &kmip.MACSignatureKeyInformation{UniqueIdentifier: "mk"}, MACSignature: []byte{1}, IVCounterNonce: []byte{2}, EncodingOption: kmip.EncodingOptionNoEncoding}},
		// metadata only: no key value
		kmip.KeyBlock{KeyFormatType: kmip.KeyFormatTypeRaw, KeyCompressionType: kmip.KeyCompressionTypeECPublicKeyTypeUncompressed, CryptographicAlgorithm: kmip.CryptographicAlgorithmAES, CryptographicLength: 256},
		// plain key value without attributes
		kmip.KeyBlock{KeyFormatType: kmip.KeyFormatTypeRaw, KeyValue: &kmip.KeyValue{Plain: &kmip.PlainKeyValue{KeyMaterial: kmip.KeyMaterial{Bytes: bytesp([]byte{})}}}},
	)
	// every big integer of the boundary alphabet as an EC private scalar / RSA public modulus
	for i, b := range BigValues() {
		if i%2 == 0 {
			out = append(out, kmip.KeyBlock{KeyFormatType: kmip.KeyFormatTypeTransparentECPrivateKey, KeyValue: plain(kmip.KeyMaterial{TransparentECPrivateKey: &kmip.TransparentECPrivateKey{RecommendedCurve: kmip.RecommendedCurveP_256, D: *b}})})
		} else {
			out = append(out, kmip.KeyBlock{KeyFormatType: kmip.KeyFormatTypeTransparentRSAPublicKey, KeyValue: plain(kmip.KeyMaterial{TransparentRSAPublicKey: &kmip.TransparentRSAPublicKey{Modulus: *b, PublicExponent: *big.NewInt(3)}})})
		}
	}
	return out
}

// BigValues: big integers around byte and 8-byte boundaries, both signs (plus magnitudes whose top byte is 0xFF).
func BigValues() []*big.Int {
	out := append([]*big.Int{}, enum.BigAlphabet(false)...)
	for _, s := range []string{"-65281", "-16711681", "-18446744073709551361", "65281", "-72057594037927681"} {
		b, _ := new(big.Int).SetString(s, 10)
		out = append(out, b)
	}
	return out
}

// Objects: the nine managed object types.
func Objects() []kmip.Object {
	kb := KeyBlocks()
	return []kmip.Object{
		&kmip.SymmetricKey{KeyBlock: kb[0]},
		&kmip.SecretData{SecretDataType: kmip.SecretDataTypePassword, KeyBlock: kb[1]},
		&kmip.Certificate{CertificateType: kmip.CertificateTypeX_509, CertificateValue: []byte{0x30, 0x03, 1, 2, 3}},
		&kmip.PublicKey{KeyBlock: kb[9]},
		&kmip.PrivateKey{KeyBlock: kb[7]},
		&kmip.SplitKey{SplitKeyParts: 3, KeyPartIdentifier: 1, SplitKeyThreshold: 2, SplitKeyMethod: kmip.SplitKeyMethodXOR, PrimeFieldSize: big.NewInt(257), KeyBlock: kb[0]},
		&kmip.OpaqueObject{OpaqueDataType: 0x80000001, OpaqueDataValue: []byte{1, 2, 3}},
		&kmip.Template{Attribute: StdAttributes()[16:19]},
		&kmip.PGPKey{PGPKeyVersion: 4, KeyBlock: kb[0]},
	}
}

func Credentials() []kmip.Credential {
	return []kmip.Credential{
		{CredentialType: kmip.CredentialTypeUsernameAndPassword, CredentialValue: kmip.CredentialValue{UserPassword: &kmip.CredentialValueUserPassword{Username: "u", Password: "p"}}},
		{CredentialType: kmip.CredentialTypeUsernameAndPassword, CredentialValue: kmip.CredentialValue{UserPassword: &kmip.CredentialValueUserPassword{Username: "u"}}},
		{CredentialType: kmip.CredentialTypeDevice, CredentialValue: kmip.CredentialValue{Device: &kmip.CredentialValueDevice{DeviceSerialNumber: "sn", Password: "p", DeviceIdentifier: "d", NetworkIdentifier: "n", MachineIdentifier: "m", MediaIdentifier: "md"}}},
		{CredentialType: kmip.CredentialTypeAttestation, CredentialValue: kmip.CredentialValue{Attestation: &kmip.CredentialValueAttestation{Nonce: kmip.Nonce{NonceID: []byte{1}, NonceValue: []byte{2}}, AttestationType: kmip.AttestationTypeTPMQuote, AttestationMeasurement: []byte{3}, AttestationAssertion: []byte{4}}}},
	}
}

// Fill builds a "rich" value of type t: every field populated with a well-formed non-zero value.
func Fill(t reflect.Type) reflect.Value {
	v := reflect.New(t).Elem()
	fill(v, 0)
	return v
}

func fill(v reflect.Value, depth int) {
	t := v.Type()
	switch t {
	case tBigInt:
		v.Set(reflect.ValueOf(*big.NewInt(65537)))
		return
	case tTime:
		v.Set(reflect.ValueOf(time.Unix(1700000000, 0)))
		return
	case tDuration:
		v.SetInt(int64(3600 * time.Second))
		return
	case tValue:
		v.Set(reflect.ValueOf(ttlv.Value{Tag: 0x540009, Value: ttlv.Struct{{Tag: 0x540001, Value: "srv"}}}))
		return
	case tStruct:
		v.Set(reflect.ValueOf(ttlv.Struct{{Tag: 0x540002, Value: int32(1)}, {Tag: 0x540003, Value: "ext"}}))
		return
	case tAttribute:
		v.Set(reflect.ValueOf(StdAttributes()[16]))
		return
	case tKeyBlock:
		v.Set(reflect.ValueOf(KeyBlocks()[0]))
		return
	case tCred:
		v.Set(reflect.ValueOf(Credentials()[0]))
		return
	case tProtoVer:
		v.Set(reflect.ValueOf(kmip.V1_4))
		return
	}
	switch t.Kind() {
	case reflect.Pointer:
		p := reflect.New(t.Elem())
		fill(p.Elem(), depth+1)
		v.Set(p)
	case reflect.Interface:
		switch t {
		case tObject:
			v.Set(reflect.ValueOf(Objects()[0]))
		case tAny:
			v.Set(reflect.ValueOf(int32(1)))
		}
		// operation payloads are set by the message builders
	case reflect.Slice:
		if t.Elem().Kind() == reflect.Uint8 {
			v.SetBytes([]byte{1, 2, 3})
			return
		}
		s := reflect.MakeSlice(t, 1, 1)
		fill(s.Index(0), depth+1)
		v.Set(s)
	case reflect.Struct:
		for i := 0; i < t.NumField(); i++ {
			if !t.Field(i).IsExported() {
				continue
			}
			fill(v.Field(i), depth+1)
		}
		fixConstraints(v)
	case reflect.String:
		v.SetString("s")
	case reflect.Bool:
		v.SetBool(true)
	case reflect.Int8, reflect.Int16, reflect.Int32, reflect.Int64, reflect.Int:
		if isMask(t) {
			v.SetInt(3)
		} else {
			v.SetInt(2)
		}
	case reflect.Uint8, reflect.Uint16:
		v.SetUint(2)
	case reflect.Uint32:
		v.SetUint(uint64(firstEnum(t)))
	}
}

// fixConstraints keeps the documented couplings of a structure consistent after (re)filling or mutating it:
// ObjectType <-> Object, and the Object Type attribute an Import request needs.
func fixConstraints(v reflect.Value) {
	t := v.Type()
	of, hasObj := t.FieldByName("Object")
	if !hasObj || of.Type != tObject {
		return
	}
	obj := v.FieldByName("Object")
	if obj.IsNil() {
		return
	}
	ot := obj.Interface().(kmip.Object).ObjectType()
	if f := v.FieldByName("ObjectType"); f.IsValid() && f.Type() == tObjType {
		f.Set(reflect.ValueOf(ot))
	}
	if t.Name() == "ImportRequestPayload" {
		attrs := []kmip.Attribute{{AttributeName: kmip.AttributeNameObjectType, AttributeValue: ot}, StdAttributes()[16]}
		v.FieldByName("Attribute").Set(reflect.ValueOf(attrs))
	}
}
