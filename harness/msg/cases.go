package msg

import (
	"fmt"
	"github.com/ovh/kmip-go/payloads"
	"reflect"
	"strings"
	"time"

	"github.com/ovh/kmip-go"
	"github.com/ovh/kmip-go/ttlv"
)

// BaselineRequest builds the rich baseline request message of an operation.
func BaselineRequest(op kmip.Operation, ver kmip.ProtocolVersion) *kmip.RequestMessage {
	m := &kmip.RequestMessage{}
	fill(reflect.ValueOf(&m.Header).Elem(), 0)
	m.Header.ProtocolVersion = ver
	m.Header.BatchCount = 1
	pl := reflect.New(PayloadTypes[op][0])
	fill(pl.Elem(), 0)
	ext := &kmip.MessageExtension{}
	fill(reflect.ValueOf(ext).Elem(), 0)
	m.BatchItem = []kmip.RequestBatchItem{{Operation: op, UniqueBatchItemID: []byte{0xB1}, RequestPayload: pl.Interface().(kmip.OperationPayload), MessageExtension: ext}}
	return m
}

func BaselineResponse(op kmip.Operation, ver kmip.ProtocolVersion) *kmip.ResponseMessage {
	m := &kmip.ResponseMessage{}
	fill(reflect.ValueOf(&m.Header).Elem(), 0)
	m.Header.ProtocolVersion = ver
	m.Header.BatchCount = 1
	pl := reflect.New(PayloadTypes[op][1])
	fill(pl.Elem(), 0)
	ext := &kmip.MessageExtension{}
	fill(reflect.ValueOf(ext).Elem(), 0)
	m.BatchItem = []kmip.ResponseBatchItem{{Operation: op, UniqueBatchItemID: []byte{0xB1}, ResultStatus: kmip.ResultStatusSuccess, ResponsePayload: pl.Interface().(kmip.OperationPayload), MessageExtension: ext}}
	return m
}

// Case is one enumerated message.
type Case struct {
	Name string
	Msg  any // *kmip.RequestMessage or *kmip.ResponseMessage
	Ver  kmip.ProtocolVersion
	Dev  int // number of deviations from the baseline
}

func setVersion(m any, v kmip.ProtocolVersion) {
	switch x := m.(type) {
	case *kmip.RequestMessage:
		x.Header.ProtocolVersion = v
	case *kmip.ResponseMessage:
		x.Header.ProtocolVersion = v
	}
}

// Enumerate calls emit for the baseline of (op, dir) and for every message with <= k sites deviating from it
// (k=2: pairs of related sites only), at every protocol version. The Case passed to emit is only valid during the call.
func Enumerate(op kmip.Operation, response bool, k int, emit func(c Case)) {
	var m any
	dir := "request"
	if response {
		m = BaselineResponse(op, kmip.V1_4)
		dir = "response"
	} else {
		m = BaselineRequest(op, kmip.V1_4)
	}
	name := fmt.Sprintf("%s %s", ttlv.EnumStr(op), dir)
	sites := Sites(reflect.ValueOf(m).Elem())
	each := func(label string, dev int) {
		for _, v := range Versions {
			setVersion(m, v)
			emit(Case{Name: fmt.Sprintf("%s v%d.%d %s", name, v.ProtocolVersionMajor, v.ProtocolVersionMinor, label), Msg: m, Ver: v, Dev: dev})
		}
	}
	each("baseline", 0)
	if k < 1 {
		return
	}
	for i, s := range sites {
		for a := 0; a < s.N; a++ {
			undo := s.Apply(a)
			each(fmt.Sprintf("%s:=%s", s.Path, s.Desc(a)), 1)
			if k >= 2 {
				// second deviation: re-list the sites (the first deviation may have changed the shape)
				sites2 := Sites(reflect.ValueOf(m).Elem())
				for _, s2 := range sites2 {
					if s2.Path <= s.Path || !Related(s, s2) {
						continue
					}
					for b := 0; b < s2.N; b++ {
						undo2 := s2.Apply(b)
						each(fmt.Sprintf("%s:=%s & %s:=%s", s.Path, s.Desc(a), s2.Path, s2.Desc(b)), 2)
						undo2()
					}
				}
			}
			undo()
		}
		_ = i
	}
}

// Extra cases: batches of several operations, an unregistered operation, failed / pending items.
func ExtraCases(emit func(c Case)) {
	ts := time.Unix(1700000000, 0)
	for _, v := range Versions {
		ops := Operations()
		for n := 2; n <= 3; n++ {
			for start := 0; start+n <= len(ops); start += n {
				req := &kmip.RequestMessage{Header: kmip.RequestHeader{ProtocolVersion: v, TimeStamp: &ts, BatchCount: int32(n)}}
				resp := &kmip.ResponseMessage{Header: kmip.ResponseHeader{ProtocolVersion: v, TimeStamp: ts, BatchCount: int32(n)}}
				for j := 0; j < n; j++ {
					op := ops[start+j]
					req.BatchItem = append(req.BatchItem, BaselineRequest(op, v).BatchItem[0])
					req.BatchItem[j].UniqueBatchItemID = []byte{byte(j + 1)}
					resp.BatchItem = append(resp.BatchItem, BaselineResponse(op, v).BatchItem[0])
					resp.BatchItem[j].UniqueBatchItemID = []byte{byte(j + 1)}
				}
				emit(Case{Name: fmt.Sprintf("batch of %d requests from %s v%v", n, ttlv.EnumStr(ops[start]), v), Msg: req, Ver: v})
				emit(Case{Name: fmt.Sprintf("batch of %d responses from %s v%v", n, ttlv.EnumStr(ops[start]), v), Msg: resp, Ver: v})
			}
		}
		// size classes: a batch of 300 items, a Locate response with 1500 identifiers, key material of 9000 and 70000 bytes
		{
			req := &kmip.RequestMessage{Header: kmip.RequestHeader{ProtocolVersion: v, TimeStamp: &ts, BatchCount: 300}}
			for j := 0; j < 300; j++ {
				req.BatchItem = append(req.BatchItem, kmip.RequestBatchItem{Operation: kmip.OperationGet, UniqueBatchItemID: []byte{byte(j >> 8), byte(j)},
					RequestPayload: &payloads.GetRequestPayload{UniqueIdentifier: fmt.Sprintf("object-%04d-%s", j, strings.Repeat("i", j%40))}})
			}
			emit(Case{Name: fmt.Sprintf("batch of 300 Get requests v%v", v), Msg: req, Ver: v})
			var ids []string
			for j := 0; j < 1500; j++ {
				ids = append(ids, fmt.Sprintf("id-%05d", j))
			}
			emit(Case{Name: fmt.Sprintf("Locate response with 1500 identifiers v%v", v), Ver: v, Msg: &kmip.ResponseMessage{Header: kmip.ResponseHeader{ProtocolVersion: v, TimeStamp: ts, BatchCount: 1},
				BatchItem: []kmip.ResponseBatchItem{{Operation: kmip.OperationLocate, ResponsePayload: &payloads.LocateResponsePayload{UniqueIdentifier: ids}}}}})
			for _, n := range []int{9000, 70000} {
				key := make([]byte, n)
				for k := range key {
					key[k] = byte(k*7 + 1)
				}
				emit(Case{Name: fmt.Sprintf("Get response with %d bytes of key material v%v", n, v), Ver: v, Msg: &kmip.ResponseMessage{Header: kmip.ResponseHeader{ProtocolVersion: v, TimeStamp: ts, BatchCount: 1},
					BatchItem: []kmip.ResponseBatchItem{{Operation: kmip.OperationGet, ResponsePayload: &payloads.GetResponsePayload{ObjectType: kmip.ObjectTypeSecretData, UniqueIdentifier: "big",
						Object: &kmip.SecretData{SecretDataType: kmip.SecretDataTypePassword, KeyBlock: kmip.KeyBlock{KeyFormatType: kmip.KeyFormatTypeOpaque, KeyValue: &kmip.KeyValue{Plain: &kmip.PlainKeyValue{KeyMaterial: kmip.KeyMaterial{Bytes: &key}}}}}}}}}})
			}
		}
		// unregistered operation with an opaque payload
		up := kmip.NewUnknownPayload(kmip.Operation(0x99), ttlv.Value{Tag: 0x420094, Value: "id"}, ttlv.Value{Tag: 0x540001, Value: ttlv.Struct{{Tag: 0x540002, Value: int64(7)}}})
		emit(Case{Name: fmt.Sprintf("unknown operation request v%v", v), Ver: v, Msg: &kmip.RequestMessage{Header: kmip.RequestHeader{ProtocolVersion: v, BatchCount: 1},
			BatchItem: []kmip.RequestBatchItem{{Operation: kmip.Operation(0x99), RequestPayload: up}}}})
		emit(Case{Name: fmt.Sprintf("unknown operation response v%v", v), Ver: v, Msg: &kmip.ResponseMessage{Header: kmip.ResponseHeader{ProtocolVersion: v, TimeStamp: ts, BatchCount: 1},
			BatchItem: []kmip.ResponseBatchItem{{Operation: kmip.Operation(0x99), ResponsePayload: up}}}})
		// response items without payload: failed, pending, undone, with and without reason / message / async value
		for _, st := range []kmip.ResultStatus{kmip.ResultStatusOperationFailed, kmip.ResultStatusOperationPending, kmip.ResultStatusOperationUndone, kmip.ResultStatusSuccess} {
			for _, rs := range []kmip.ResultReason{0, kmip.ResultReasonItemNotFound, kmip.ResultReasonGeneralFailure} {
				if st == kmip.ResultStatusOperationFailed && rs == 0 {
					continue // Result Reason is required for a failed item: not a well-formed message
				}
				for _, msg := range []string{"", "details"} {
					it := kmip.ResponseBatchItem{Operation: kmip.OperationGet, ResultStatus: st, ResultReason: rs, ResultMessage: msg}
					if st == kmip.ResultStatusOperationPending {
						it.AsynchronousCorrelationValue = []byte{7, 7}
					}
					emit(Case{Name: fmt.Sprintf("response item status=%d reason=%d message=%q v%v", st, rs, msg, v), Ver: v,
						Msg: &kmip.ResponseMessage{Header: kmip.ResponseHeader{ProtocolVersion: v, TimeStamp: ts, BatchCount: 1}, BatchItem: []kmip.ResponseBatchItem{it}}})
					if st == kmip.ResultStatusSuccess {
						// a successful item may also carry a reason / message next to its payload
						it3 := it
						it3.ResponsePayload = BaselineResponse(kmip.OperationGet, v).BatchItem[0].ResponsePayload
						emit(Case{Name: fmt.Sprintf("response item with payload status=%d reason=%d message=%q v%v", st, rs, msg, v), Ver: v,
							Msg: &kmip.ResponseMessage{Header: kmip.ResponseHeader{ProtocolVersion: v, TimeStamp: ts, BatchCount: 2}, BatchItem: []kmip.ResponseBatchItem{it3, it3}}})
					}
					it2 := it
					it2.Operation = 0
					it2.MessageExtension = &kmip.MessageExtension{VendorIdentification: "v", CriticalityIndicator: true, VendorExtension: ttlv.Struct{{Tag: 0x540001, Value: int32(1)}}}
					emit(Case{Name: fmt.Sprintf("response item (no operation, extension) status=%d reason=%d message=%q v%v", st, rs, msg, v), Ver: v,
						Msg: &kmip.ResponseMessage{Header: kmip.ResponseHeader{ProtocolVersion: v, TimeStamp: ts, BatchCount: 1}, BatchItem: []kmip.ResponseBatchItem{it2}}})
				}
			}
		}
	}
}
