//go:build !verifmc

// vconf (free variant): runs every micro-program many times on the real Go runtime and prints the outcome sets as JSON.
package main

import (
	"encoding/json"
	"fmt"
	"runtime"
	"sort"

	"verifharness/conf/progs"
)

func main() {
	res := map[string][]string{}
	for _, p := range progs.All {
		set := map[string]bool{}
		for i := 0; i < 400; i++ {
			if i%3 == 0 {
				runtime.Gosched()
			}
			set[p.Run()] = true
		}
		var outs []string
		for o := range set {
			outs = append(outs, o)
		}
		sort.Strings(outs)
		res[p.Name] = outs
	}
	b, _ := json.Marshal(res)
	fmt.Println(string(b))
}
