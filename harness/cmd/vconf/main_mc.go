//go:build verifmc

// vconf (shim variant): explores every micro-program exhaustively under the mc shims and compares with the
// free run (JSON file given as argument) and with the hand-written expectations.
package main

import (
	"encoding/json"
	"fmt"
	"os"

	"verifharness/conf"
	"verifharness/conf/progs"
)

func main() {
	free := map[string][]string{}
	if len(os.Args) > 1 {
		b, err := os.ReadFile(os.Args[1])
		if err != nil || json.Unmarshal(b, &free) != nil {
			fmt.Fprintln(os.Stderr, "vconf: cannot read the free-run outcomes")
			os.Exit(2)
		}
	}
	bad := 0
	var totalExecs int64
	for _, p := range progs.All {
		outs, execs, fatal := conf.ShimOutcomes(p)
		totalExecs += execs
		allowed := map[string]bool{}
		for _, a := range p.Allowed {
			allowed[a] = true
		}
		shim := map[string]bool{}
		for _, o := range outs {
			shim[o] = true
			if !allowed[o] {
				fmt.Printf("CONFORMANCE: %s: the shim produces %q, which Go does not allow (allowed %v)\n", p.Name, o, p.Allowed)
				bad++
			}
		}
		for _, o := range free[p.Name] {
			if !allowed[o] {
				fmt.Printf("CONFORMANCE: %s: real Go produced %q, missing from the expectations %v\n", p.Name, o, p.Allowed)
				bad++
			}
			if !shim[o] {
				fmt.Printf("CONFORMANCE: %s: real Go produced %q but no schedule under the shim does (shim: %v)\n", p.Name, o, outs)
				bad++
			}
		}
		for _, a := range p.Allowed {
			if !shim[a] {
				fmt.Printf("CONFORMANCE: %s: allowed outcome %q is never produced under the shim (shim: %v)\n", p.Name, a, outs)
				bad++
			}
		}
		if len(fatal) > 0 {
			fmt.Printf("CONFORMANCE: %s: machinery error %v\n", p.Name, fatal)
			bad++
		}
	}
	fmt.Printf("shim conformance: %d programs, %d executions under the shim, %d problems\n", len(progs.All), totalExecs, bad)
	if bad > 0 {
		os.Exit(2)
	}
}
