// vrace is the free-running pass for the "no data race" clause of C20: built WITHOUT the overlay and WITH
// -race, started as a fresh process per round so that the per-type plan caches are cold; several goroutines
// then perform codec operations concurrently on real goroutines. A race report is a definite finding;
// silence is supporting evidence only (a dynamic detector on finitely many runs).
//
//	vrace pair <a> <b>  runs operations a and b on two goroutines (every unordered pair is run by the driver)
//	vrace <round>      prints "ok <ops>" or lets the race detector report on stderr (exit 66)
package main

import (
	"encoding/json"
	"fmt"
	"os"
	"strconv"
	"sync"

	"verifharness/codecops"
)

func main() {
	if len(os.Args) > 1 && os.Args[1] == "inputs" {
		b, _ := json.Marshal(codecops.BuildInputs())
		fmt.Println(string(b))
		return
	}
	round := 0
	if len(os.Args) > 1 {
		round, _ = strconv.Atoi(os.Args[1])
	}
	// decode inputs are pinned by building them in a child-free way: they warm only the encoder side caches of
	// the three input messages; rounds alternate between building inputs first (decoder cold, encoder partly warm)
	// and building them concurrently with the other operations.
	names := codecops.Names()
	if p := os.Getenv("VERIF_CODEC_INPUTS"); p != "" {
		// inputs produced by another process: this process starts with completely cold caches
		b, err := os.ReadFile(p)
		in := &codecops.Inputs{}
		if err != nil || json.Unmarshal(b, in) != nil {
			fmt.Fprintln(os.Stderr, "vrace: cannot load inputs")
			os.Exit(2)
		}
		codecops.In = in
	} else {
		codecops.In = codecops.BuildInputs()
	}
	if len(os.Args) > 3 && os.Args[1] == "pair" {
		// systematic part: the two named operations, one goroutine each, three times
		var wg sync.WaitGroup
		start := make(chan struct{})
		for _, name := range os.Args[2:4] {
			op, ok := codecops.Ops[name]
			if !ok {
				fmt.Fprintln(os.Stderr, "vrace: unknown operation", name)
				os.Exit(2)
			}
			wg.Add(1)
			go func() {
				defer wg.Done()
				<-start
				for j := 0; j < 3; j++ {
					_ = op()
				}
			}()
		}
		close(start)
		wg.Wait()
		fmt.Println("ok pair", os.Args[2], os.Args[3])
		return
	}
	k := 2 + round%3
	var wg sync.WaitGroup
	start := make(chan struct{})
	res := make([]string, k)
	for g := 0; g < k; g++ {
		g := g
		wg.Add(1)
		go func() {
			defer wg.Done()
			<-start
			for j := 0; j < 3; j++ {
				name := names[(round*7+g*3+j*5)%len(names)]
				res[g] += name + " "
				_ = codecops.Ops[name]()
			}
		}()
	}
	close(start)
	wg.Wait()
	fmt.Println("ok", res)
}
