//go:build verifmc

package main

type Plan struct {
	Level       string
	Rule        string
	Assumptions []string
	Quick       []Shard
	Thorough    []Shard
}

var plans = map[string]Plan{}

func shards(pre, fault, dead int, names ...string) []Shard {
	var r []Shard
	for _, n := range names {
		r = append(r, Shard{Scenario: n, Pre: pre, Fault: fault, DeadS: dead})
	}
	return r
}

var timeAssumption = "time is abstract: a timer may fire at any point after it is armed; oracles never require a timer not to have fired"
var netAssumption = "in-memory net.Conn/net.Listener model (blocking Read, Write into the peer's buffer, Close wakes readers and breaks the peer's writes); sequentially consistent memory"
var fifoAssumption = "several goroutines parked on the same channel are served first-come first-served as in the Go runtime; the arrival order is explored"

func init() {
	c08 := []string{"srv-req-read-close", "srv-req-close", "srv-req-close-smallpipe", "srv-two-seq", "srv-pipelined", "srv-panics", "srv-half-then-close",
		"srv-4bytes-then-close", "srv-garbage", "srv-undecodable", "srv-toobig", "srv-req-then-garbage", "srv-slow-close", "srv-halfclose"}
	c08two := []string{"srv-2conn-good-bad", "srv-2conn-good-abrupt"}
	plans["C08"] = Plan{
		Level: "model_checking",
		Rule: "all schedules (thread interleavings, select choices, timer firings) of the real kmipserver code under scripted client connections, " +
			"within the preemption bound given per shard; distinct = distinct (scenario, outcome) classes observed",
		Assumptions: []string{timeAssumption, netAssumption, fifoAssumption, "a half-close is treated like a disconnect (no response required after it)"},
		Quick:       append(shards(1, 0, 100, c08...), shards(0, 0, 100, c08two...)...),
		Thorough:    append(append(shards(2, 0, 1500, c08...), shards(1, 0, 1500, c08two...)...), shards(0, 0, 1500, "srv-3conn")...),
	}
}
