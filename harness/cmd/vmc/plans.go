//go:build verifmc

package main

import (
	"encoding/json"
	"fmt"
	"os"
	"path/filepath"
	"strings"

	"verifharness/vlib"
)

type Plan struct {
	Property    string // property the plan reports under (default: the plan's own name)
	Level       string
	Rule        string
	Assumptions []string
	Quick       []Shard
	Thorough    []Shard
	Keep        func(sig string) bool // nil = every finding belongs to this property
	Pre, Post   func(c *vlib.Check) error
}

var plans = map[string]Plan{}

func shards(pre, fault, dead int, names ...string) []Shard {
	var r []Shard
	for _, n := range names {
		r = append(r, Shard{Scenario: n, Pre: pre, Fault: fault, DeadS: dead})
	}
	return r
}

var timeAssumption = "time is abstract: a timer may fire at any point after it is armed; oracles never require a timer not to have fired"
var netAssumption = "in-memory net.Conn/net.Listener model (blocking Read, Write into the peer's buffer, Close wakes readers and breaks the peer's writes); sequentially consistent memory"
var fifoAssumption = "several goroutines parked on the same channel are served first-come first-served as in the Go runtime; the arrival order is explored"

type B = [][2]int

// pb: preemption-bounded shards (switching away from a blocked thread is free); db: delay-bounded shards.
func pb(dead int, bounds B, names ...string) []Shard {
	var r []Shard
	for _, n := range names {
		r = append(r, Shard{Scenario: n, Bounds: bounds, Pre: bounds[len(bounds)-1][0], Fault: bounds[len(bounds)-1][1], DeadS: dead})
	}
	return r
}
func db(dead int, bounds B, names ...string) []Shard {
	r := pb(dead, bounds, names...)
	for i := range r {
		r[i].Delay = true
	}
	return r
}
// split deals each shard's first-level branches over n processes (see mc.Config.Part).
func split(n int, ss []Shard) []Shard {
	var r []Shard
	for _, s := range ss {
		for k := 0; k < n; k++ {
			p := s
			p.Part, p.Parts = k, n
			r = append(r, p)
		}
	}
	return r
}
func cat(ss ...[]Shard) []Shard {
	var r []Shard
	for _, s := range ss {
		r = append(r, s...)
	}
	return r
}

var boundingNote = "two bounding disciplines, both exhaustive within their bound: 'preemption' = every schedule with at most k preemptions (switching away from a blocked/finished thread is free); " +
	"'delay' = every schedule with at most k deviations from the deterministic scheduler (continue the running thread, else lowest enabled thread). Environment faults are bounded separately."

// mergeSeqEvidence folds the partial evidence written by the sequential part of a two-part check
// (evidence/<id>.seq.json, produced just before by cmd/vcheck) into the final evidence and removes it.
func mergeSeqEvidence(id string) func(c *vlib.Check) error {
	return func(c *vlib.Check) error {
		p := filepath.Join(vlib.Root(), "evidence", id+".seq.json")
		b, err := os.ReadFile(p)
		if err != nil {
			return fmt.Errorf("sequential part of %s left no evidence: %v", id, err)
		}
		defer os.Remove(p)
		var ev struct {
			Coverage struct {
				Evaluations int64  `json:"evaluations"`
				Distinct    int64  `json:"distinct_nontrivial"`
				States      int64  `json:"states"`
				Transitions int64  `json:"transitions"`
				Traces      int64  `json:"traces_validated_against_impl"`
				Rule        string `json:"rule"`
				Samples     []any  `json:"samples"`
			} `json:"coverage"`
			Assumptions []string `json:"assumptions"`
			Violations  int      `json:"violations"`
		}
		if err := json.Unmarshal(b, &ev); err != nil {
			return err
		}
		c.Evaluations += ev.Coverage.Evaluations
		c.DistinctN += ev.Coverage.Distinct
		c.States += ev.Coverage.States
		c.Transitions += ev.Coverage.Transitions
		c.Traces += ev.Coverage.Traces
		c.Rule = "(1) " + ev.Coverage.Rule + " (2) " + c.Rule
		c.Assumptions = append(ev.Assumptions, c.Assumptions...)
		for _, s := range ev.Coverage.Samples {
			c.Sample(s)
		}
		c.Extra["sequential_part"] = map[string]any{"evaluations": ev.Coverage.Evaluations, "states": ev.Coverage.States, "transitions": ev.Coverage.Transitions, "violations": ev.Violations}
		return nil
	}
}

func init() {
	hasPrefix := func(ps ...string) func(string) bool {
		return func(sig string) bool {
			for _, p := range ps {
				if strings.HasPrefix(sig, p) {
					return true
				}
			}
			return false
		}
	}
	c08 := []string{"srv-req-read-close", "srv-req-close", "srv-req-close-smallpipe", "srv-two-seq", "srv-pipelined", "srv-panics", "srv-half-then-close",
		"srv-4bytes-then-close", "srv-stray-response", "srv-hookfail-req", "srv-hookok-seq", "srv-garbage", "srv-undecodable", "srv-undecodable-item", "srv-undecodable-item2", "srv-undecodable-payload", "srv-undecodable-nocount", "srv-undecodable-short-count", "srv-undecodable-short-major", "srv-undecodable-short-operation", "srv-undecodable-short-timestamp", "srv-toobig", "srv-req-then-garbage", "srv-slow-close", "srv-halfclose", "srv-3pipelined-close"}
	c08long := []string{"srv-refused-requests-a", "srv-refused-requests-b", "srv-refused-requests-c", "srv-hookfail-2conn"} // long scripts: delay bounding
	c08multi := []string{"srv-2conn-good-bad", "srv-2conn-good-abrupt", "srv-3conn", "srv-4pipelined-read1-close"}
	plans["C08"] = Plan{
		Post:  mergeSeqEvidence("C08"),
		Level: "model_checking",
		Rule: "all schedules (thread interleavings, select choices, timer firings) of the real kmipserver code under scripted client connections, " +
			"within the bound given per shard; distinct = distinct (scenario, outcome) classes observed. " + boundingNote,
		Assumptions: []string{timeAssumption, netAssumption, fifoAssumption, "a half-close is treated like a disconnect (no response required after it)"},
		Quick:       cat(pb(100, B{{0, 0}, {1, 0}}, c08...), db(100, B{{2, 0}}, c08multi...), db(100, B{{0, 0}, {1, 0}}, "srv-size-history"), db(100, B{{1, 0}, {2, 0}}, c08long...), pb(100, B{{0, 0}}, "srv-refused-requests-b", "srv-refused-requests-c", "srv-hookfail-2conn"), db(100, B{{1, 0}, {2, 0}}, "srv-2conn-big-slow-reader")),
		Thorough:    cat(pb(1500, B{{1, 0}, {2, 0}}, c08...), db(1500, B{{3, 0}, {4, 0}}, c08...), db(1500, B{{2, 0}, {3, 0}}, c08multi...), pb(1500, B{{0, 0}}, c08multi...), db(1500, B{{2, 0}}, "srv-size-history"), pb(1500, B{{0, 0}}, "srv-size-history"), db(1500, B{{3, 0}}, c08long...), pb(1500, B{{0, 0}, {1, 0}}, c08long...), db(1500, B{{3, 0}, {4, 0}}, "srv-2conn-big-slow-reader"), pb(600, B{{0, 0}}, "srv-2conn-big-slow-reader")),
	}
	plans["C08cold"] = Plan{
		Property: "C08",
		Level:    "model_checking",
		Rule: "first part, built with the codec package instrumented as well (its per-type plan caches are scheduling points, cold at the start of every execution): " +
			"two and three connections whose first requests are decoded, handled and answered concurrently.",
		Assumptions: []string{},
		Quick:       split(16, db(100, B{{1, 0}, {2, 0}}, "srv-2conn-cold")),
		Thorough:    cat(split(16, db(600, B{{2, 0}, {3, 0}}, "srv-2conn-cold")), split(16, db(400, B{{1, 0}, {2, 0}}, "srv-3conn-cold"))),
	}
	c10mw := []string{"cli-par-2-libmw", "cli-par-3-libmw"}
	c10 := []string{"cli-bytes-seq-par", "cli-bytes-cancel", "cli-stray-requests", "cli-cancel-then-next", "cli-timeout-seq", "cli-par-2", "cli-par-cancel", "cli-par-3", "cli-negotiate-cancel"}
	plans["C10"] = Plan{
		Level: "model_checking",
		Rule: "all schedules of N callers sharing one real kmipclient.Client against scripted echo servers (response = request identifier), " +
			"with cancellers/timeouts firing at any point, within the bound per shard; distinct = distinct (scenario, outcome) classes. " + boundingNote,
		Assumptions: []string{timeAssumption, netAssumption, fifoAssumption},
		Keep:        hasPrefix("fail:misassociation", "fail:corrupt-response"),
		Quick:       cat(db(100, B{{2, 0}, {3, 0}}, c10...), pb(100, B{{0, 0}, {1, 0}}, "cli-par-2"), db(100, B{{1, 0}, {2, 0}}, c10mw...), pb(100, B{{0, 0}}, "cli-bytes-seq-par", "cli-bytes-cancel", "cli-cancel-then-next", "cli-negotiate-cancel")),
		Thorough:    cat(db(1500, B{{3, 0}, {4, 0}}, c10...), pb(1500, B{{0, 0}, {1, 0}, {2, 0}}, c10...), db(1500, B{{3, 0}}, c10mw...), pb(1500, B{{0, 0}, {1, 0}}, c10mw...)),
	}
	c11 := []string{"clf-negotiate-nocommon", "clf-close-during-call", "clf-close-during-call-srvclose", "clf-close-during-par", "clf-seq3", "clf-seq3-srvclose", "clf-seq3-dial", "clf-negotiate", "clf-par-2", "clf-close-only"}
	c11pb := []string{"clf-negotiate-nocommon", "clf-close-during-call", "clf-close-during-call-srvclose", "clf-close-during-par", "clf-seq3", "clf-seq3-srvclose", "clf-seq3-dial", "clf-negotiate", "clf-close-only"} // preemption bound 0: every schedule that switches only at blocking points
	c11drop := []string{"clf-drop-3", "clf-drop-4", "clf-drop-5"} // long scripts (up to 9 connections): small scheduling bounds
	plans["C11"] = Plan{
		Level: "fault_enumeration",
		Rule: "every Read/Write of the client side of every connection (and every dial / server reply) is an environment choice point: ok, EOF, reset, closed, " +
			"short read/write, server closes right after replying, dial refused (and, outside the budget, servers that drop the request on the first 3/4/5/9 connections); all placements of <= fault-bound faults x all schedules within the scheduling bound; " +
			"distinct = distinct (scenario, outcome) classes. " + boundingNote,
		Assumptions: []string{timeAssumption, netAssumption, fifoAssumption, "'promptly' is decided as 'without needing any further external event' (no caller blocked forever)",
			"a call is only required to succeed when the previous call had already failed and no fault was injected during the call itself"},
		Keep:     hasPrefix("panic:", "deadlock:", "leak:", "fail:no-recovery", "fail:spurious-failure", "fail:retransmit", "fail:call-after-close", "fail:corrupt-response", "fail:misassociation", "fail:server-got-garbage", "fail:dial-failed"),
		Quick:    cat(db(100, B{{0, 1}, {1, 1}, {2, 1}}, c11...), db(100, B{{0, 2}, {1, 2}}, "clf-seq3-dial", "clf-seq3-srvclose"), db(100, B{{0, 1}, {1, 1}}, c11drop...), db(100, B{{0, 1}}, "clf-drop-9"), pb(100, B{{0, 1}}, c11pb...), pb(100, B{{0, 0}}, "clf-par-2")),
		Thorough: cat(db(1500, B{{2, 1}, {3, 1}}, c11...), db(1500, B{{0, 2}, {1, 2}}, c11...), pb(1500, B{{0, 1}}, c11...), db(1500, B{{1, 1}, {2, 1}}, c11drop...), db(1500, B{{0, 1}, {1, 1}}, "clf-drop-9"), pb(1500, B{{0, 0}}, c11drop...)),
	}

	c16one := []string{"shut-stubborn", "shut-pipelined", "shut-idle", "shut-half", "shut-fast", "shut-slow", "shut-smallpipe", "shut-hookfail", "shut-late"}
	c16two := []string{"shut-2conn", "shut-2conn-sameaddr", "shut-2conn-idle-fast", "shut-twice-slow", "shut-twice-fast", "shut-closeerr-slow", "shut-closeerr-fast"}
	plans["C16"] = Plan{
		Level: "model_checking",
		Rule: "all schedules of Shutdown (free-running thread) against connections in each phase {connecting, idle, half request, in handler, response stuck in a 16-byte pipe, " +
			"failing connect hook, late accept} with the 3 s grace timer firing at any point; distinct = distinct (scenario, outcome) classes. " + boundingNote,
		Assumptions: []string{timeAssumption, netAssumption, fifoAssumption,
			"'all per-connection goroutines have ended' is read as 'end without any further external event' (checked at quiescence, not at the instant Shutdown returns)",
			"a handler may only be cancelled after the grace timer fired or after its client disconnected"},
		Quick:    cat(db(100, B{{2, 0}, {3, 0}}, c16one...), db(100, B{{2, 0}}, c16two...), pb(100, B{{0, 0}, {1, 0}}, "shut-fast", "shut-late"), db(100, B{{4, 0}}, "shut-late"), pb(100, B{{0, 0}}, c16one...), pb(100, B{{0, 0}}, "shut-closeerr-slow", "shut-closeerr-fast")),
		Thorough: cat(db(1500, B{{3, 0}, {4, 0}, {5, 0}}, c16one...), db(1500, B{{3, 0}}, c16two...), pb(1500, B{{0, 0}, {1, 0}, {2, 0}, {3, 0}}, c16one...), split(4, pb(600, B{{0, 0}}, c16two...))),
	}

	plans["C15"] = Plan{
		Level: "model_checking",
		Rule: "(1) explicit exhaustive enumeration of all batches up to the stated size over the action alphabet {Set a, Set b, Read, GetIdOrPlaceholder, fail, panic} x {Continue, Stop}, each followed by a probe request " +
			"on the same connection context, compared with a reference model (one string per request, cleared on item failure); (2) all schedules of 2-3 concurrent requests whose handlers yield before every placeholder action, " +
			"directly on one BatchExecutor and through two real server connections. distinct = distinct (scenario, outcome) classes. " + boundingNote,
		Assumptions: []string{netAssumption, fifoAssumption, "placeholder accesses are declared to the scheduler as conflicting accesses so that the state cache cannot merge their orders"},
		Keep:        hasPrefix("fail:placeholder", "panic:"),
		Quick: cat(pb(100, B{{0, 0}}, "ph-seq-exhaustive-t", "ph-seq-exhaustive-mw", "ph-seq-nested", "ph-seq-nested-2exec", "ph-seq-retry", "ph-seq-absorb"), pb(100, B{{2, 0}, {3, 0}}, "ph-conc-2", "ph-conc-2-mw", "ph-conc-2-mw3", "ph-conc-2-fail", "ph-conc-2-after-undo", "ph-conc-2-after-count", "ph-conc-2-after-version",
			"ph-conc-2-after-faileditem", "ph-conc-2-after-panic", "ph-conc-2-after-ok", "ph-conc-2-after-undo-undo"), pb(100, B{{1, 0}, {2, 0}}, "ph-conc-3"),
			db(100, B{{2, 0}}, "ph-srv-seq", "ph-srv-2conn")),
		Thorough: cat(pb(1500, B{{0, 0}}, "ph-seq-exhaustive-x", "ph-seq-exhaustive-mw", "ph-seq-nested", "ph-seq-nested-2exec", "ph-seq-retry", "ph-seq-absorb"), pb(1500, B{{3, 0}, {4, 0}, {5, 0}}, "ph-conc-2", "ph-conc-2-mw", "ph-conc-2-mw3", "ph-conc-2-fail", "ph-conc-2-after-undo", "ph-conc-2-after-count", "ph-conc-2-after-version",
			"ph-conc-2-after-faileditem", "ph-conc-2-after-panic", "ph-conc-2-after-ok", "ph-conc-2-after-undo-undo"), pb(1500, B{{2, 0}, {3, 0}}, "ph-conc-3"),
			db(1500, B{{3, 0}, {4, 0}}, "ph-srv-seq", "ph-srv-2conn"), pb(1500, B{{1, 0}}, "ph-srv-seq", "ph-srv-2conn")),
	}

	c20two := []string{"codec:enc-req10-ttlv||enc-req14-ttlv", "codec:enc-req10-ttlv||dec-req12-ttlv", "codec:enc-resp14-xml||enc-resp12-json", "codec:enc-create11-xml||enc-create14-ttlv",
		"codec:dec-resp13-xml||enc-resp14-xml", "codec:dec-create14-json||enc-create11-xml", "codec:reuse-10-then-14||reuse-14-then-10"}
	c20same := []string{"codec:enc-eckey-a-ttlv||enc-eckey-b-ttlv", "codec:enc-eckey-a-ttlv||enc-eckey-b-xml", "codec:dec-resp13-xml||dec-resp13-xml", "codec:enc-req14-ttlv||enc-req14-ttlv", "codec:enc-resp14-xml||enc-resp14-xml",
		"codec:dec-custattr-a-ttlv||dec-custattr-b-xml", "codec:dec-custattr-a-ttlv||dec-custattr-c-json"}
	c02heavy := []string{"codec:dec-req12-ttlv||dec-req12-ttlv", "codec:dec-create14-json||dec-create14-json"}
	c02conc := []string{"codec:dec-resp13-xml||dec-resp13-xml",
		"codec:dec-trunc-req12-ttlv||dec-req12-ttlv", "codec:dec-trunc-resp13-xml||dec-trunc-resp13-xml", "codec:dec-trunc-create14-json||dec-create14-json"}
	plans["C02"] = Plan{
		Post:  mergeSeqEvidence("C02"),
		Level: "exploration",
		Rule: "all interleavings (at the per-type plan cache operations of the instrumented ttlv package, caches cold at the start of every execution) of two threads decoding the same well-formed or truncated " +
			"binary / XML / JSON input at once: no panic, and each call returns what it returns alone. " + boundingNote,
		Assumptions: []string{"scheduling points are the sync.Map operations of the plan caches (the only synchronisation in the codec)"},
		Keep:        hasPrefix("fail:codec-result", "panic:"),
		Pre:         codecPre,
		Quick:       cat(pb(100, B{{1, 0}, {2, 0}}, c02conc...), split(8, pb(100, B{{1, 0}, {2, 0}}, c02heavy...))),
		Thorough:    cat(pb(1500, B{{2, 0}, {3, 0}, {4, 0}}, c02conc...), split(16, pb(1500, B{{2, 0}, {3, 0}}, c02heavy...))),
	}
	c14conc := []string{"codec:enc-eckey-a-ttlv||enc-eckey-b-ttlv", "codec:enc-eckey-a-ttlv||enc-eckey-b-xml", "codec:enc-eckey-a-json||enc-eckey-b-xml"}
	plans["C14"] = Plan{
		Post:  mergeSeqEvidence("C14"),
		Level: "exploration",
		Rule: "all interleavings (bounded preemptions; scheduling points at the plan-cache operations of the instrumented codec and around writes to variables captured by its cached closures, caches cold) of two threads " +
			"encoding transparent EC private keys with different scalars at once, in the three encodings: each encoding must carry its own key. " + boundingNote,
		Assumptions: []string{},
		Keep:        hasPrefix("fail:codec-result", "panic:"),
		Pre:         codecPre,
		Quick:       pb(100, B{{1, 0}, {2, 0}}, c14conc...),
		Thorough:    pb(1500, B{{2, 0}, {3, 0}}, c14conc...),
	}
	plans["C05"] = Plan{
		Post:  mergeSeqEvidence("C05"),
		Level: "exploration",
		Rule: "all interleavings (bounded preemptions, at the plan-cache operations of the instrumented codec, caches cold) of two threads encoding messages of DIFFERENT protocol versions at once, in the three encodings and on reused encoders: " +
			"each result must be what the same call gives alone (the version of one message must not gate the fields of another). " + boundingNote,
		Assumptions: []string{"scheduling points are the sync.Map operations of the plan caches (the only synchronisation in the codec)"},
		Keep:        hasPrefix("fail:codec-result", "panic:"),
		Pre:         codecPre,
		Quick:       pb(100, B{{1, 0}, {2, 0}}, "codec:enc-req10-ttlv||enc-req14-ttlv", "codec:enc-resp14-xml||enc-resp12-json", "codec:enc-create11-xml||enc-create14-ttlv", "codec:reuse-10-then-14||reuse-14-then-10"),
		Thorough:    pb(1500, B{{2, 0}, {3, 0}}, "codec:enc-req10-ttlv||enc-req14-ttlv", "codec:enc-resp14-xml||enc-resp12-json", "codec:enc-create11-xml||enc-create14-ttlv", "codec:reuse-10-then-14||reuse-14-then-10"),
	}
	c20big := []string{"codec:enc-req10-ttlv+dec-resp13-xml||enc-resp14-xml+dec-req12-ttlv", "codec:enc-req10-ttlv||enc-req14-ttlv||dec-req12-ttlv"}
	plans["C20"] = Plan{
		Level: "model_checking",
		Rule: "all interleavings (at the per-type plan cache operations Load/Store of the instrumented ttlv package, caches reset to cold before every execution) of 2-3 threads each encoding/decoding " +
			"messages of different versions and formats, compared with the result of the same call run alone from cold caches; all histories of <= 3 (thorough 4) operations from cold caches; and all ordered pairs (A, B) of the rich baseline messages " +
			"(27 operations x request/response x versions {1.0, 1.4}, thorough 1.0..1.4) x {binary, XML, JSON, text}: B on an encoder that encoded A and was cleared, and Marshal(A) then Marshal(B) from cold caches, each compared with B alone (and A's returned bytes re-read afterwards); distinct = distinct (scenario, outcome) classes. " + boundingNote,
		Assumptions: []string{"sequentially consistent memory; the 'no data race' clause is examined separately by a free-running -race pass: every unordered pair of the codec operations (an operation with itself included) on two goroutines in a fresh process, plus mixed rounds of 2-4 goroutines (all pairs of operations are covered, their schedules are not: supporting evidence, not exhaustive)",
			"scheduling points are the sync.Map operations of the plan caches (the only synchronisation in the codec)"},
		Keep:     hasPrefix("fail:codec-result", "panic:", "race:"),
		Pre:      codecPre,
		Post:     codecPost,
		Quick:    cat(pb(100, B{{1, 0}, {2, 0}}, c20two...), pb(100, B{{1, 0}, {2, 0}}, c20same...), split(8, pb(100, B{{1, 0}, {2, 0}}, c02heavy...)), pb(100, B{{1, 0}}, c20big...), pb(100, B{{0, 0}}, "codec-hist-3", "codec-pairs-ttlv", "codec-pairs-xml", "codec-pairs-json", "codec-pairs-text")),
		Thorough: cat(pb(1500, B{{2, 0}, {3, 0}}, c20two...), pb(1500, B{{2, 0}, {3, 0}}, c20same...), split(16, pb(1500, B{{2, 0}, {3, 0}}, c02heavy...)), pb(1500, B{{2, 0}}, c20big...), pb(1500, B{{0, 0}}, "codec-hist-4", "codec-pairs5-ttlv", "codec-pairs5-xml", "codec-pairs5-json", "codec-pairs5-text")),
	}

	plans["C19"] = Plan{
		Post:  mergeSeqEvidence("C19"),
		Level: "model_checking",
		Rule: "all interleavings (every synchronisation operation and every write to a field / element / pointee of the instrumented kmipserver package is a scheduling point) of 2-3 concurrent first requests " +
			"through one freshly built executor whose stages yield, and of 2-3 concurrent callers through one kmipclient.Client with yielding middlewares over a real (in-memory) connection; each request's own trace must be the reference trace, and on the client the response must be the caller's own and the transport must be reached exactly once per continuation call. " + boundingNote,
		Assumptions: []string{"reads of plain shared memory are not scheduling points (only writes are)"},
		Keep:        hasPrefix("fail:middleware-chain", "panic:"),
		Quick:       cat(pb(100, B{{1, 0}, {2, 0}}, "mw-conc-2x2", "mw-conc-2x2-retry"), pb(100, B{{1, 0}}, "mw-conc-2x3", "mw-conc-3x2"), db(100, B{{1, 0}, {2, 0}}, "cmw-conc-2x2", "cmw-conc-2x2-retry", "cmw-conc-3x1", "cmw-conc-2x2-libmw")),
		Thorough:    cat(pb(1500, B{{2, 0}, {3, 0}}, "mw-conc-2x2", "mw-conc-2x2-retry", "mw-conc-2x3"), pb(1500, B{{2, 0}}, "mw-conc-3x2"), db(1500, B{{3, 0}, {4, 0}}, "cmw-conc-2x2", "cmw-conc-2x2-retry", "cmw-conc-3x1", "cmw-conc-2x2-libmw"), pb(1500, B{{0, 0}, {1, 0}}, "cmw-conc-2x2", "cmw-conc-2x2-retry")),
	}
}
