//go:build verifmc && verifmc_codec

package main

import (
	"encoding/json"
	"fmt"
	"os"
	"os/exec"
	"path/filepath"
	"regexp"
	"strings"
	"sync"

	"verifharness/codecops"
	"verifharness/scen"
	"verifharness/vlib"
)

func codecRef(name string) string { return scen.CodecRef(name) }

// codecPre obtains the reference result of every codec operation from a fresh child process (cold caches,
// nothing else run before it) and hands the table to the shards.
func codecPre(c *vlib.Check) error {
	refs := map[string]string{}
	var mu sync.Mutex
	var firstErr error
	names := codecops.Names()
	vlib.Parallel(len(names), 8, func(i int) {
		out, err := exec.Command(os.Args[0], "codec-ref", names[i]).Output()
		mu.Lock()
		defer mu.Unlock()
		if err != nil {
			firstErr = fmt.Errorf("codec-ref %s: %v", names[i], err)
			return
		}
		refs[names[i]] = string(out)
	})
	if firstErr != nil {
		return firstErr
	}
	dir := filepath.Dir(os.Args[0])
	p := filepath.Join(dir, "codec_refs.json")
	b, _ := json.Marshal(refs)
	if err := os.WriteFile(p, b, 0o644); err != nil {
		return err
	}
	os.Setenv("VERIF_CODEC_REFS", p)
	c.Extra["reference_results_from_fresh_processes"] = len(refs)
	return nil
}

var reRaceFn = regexp.MustCompile(`(?m)^  (github\.com/ovh/kmip-go[^\s(]*)\(`)

// codecPost runs the free-running -race pass (separate binary, no overlay) in fresh processes.
func codecPost(c *vlib.Check) error {
	vr := os.Getenv("VERIF_VRACE")
	if vr == "" {
		return fmt.Errorf("VERIF_VRACE not set")
	}
	inputs, err := exec.Command(vr, "inputs").Output()
	if err != nil {
		return fmt.Errorf("vrace inputs: %v", err)
	}
	ip := filepath.Join(filepath.Dir(os.Args[0]), "codec_inputs.json")
	if err := os.WriteFile(ip, inputs, 0o644); err != nil {
		return err
	}
	rounds := 48
	if c.Thorough() {
		rounds = 400
	}
	var mu sync.Mutex
	races := 0
	var firstErr error
	// systematic part: every unordered pair of operations (including an operation with itself), each in a fresh process
	names := codecops.Names()
	type pr struct{ a, b string }
	var prs []pr
	for i := range names {
		for j := i; j < len(names); j++ {
			prs = append(prs, pr{names[i], names[j]})
		}
	}
	vlib.Parallel(len(prs), 16, func(i int) {
		cmd := exec.Command(vr, "pair", prs[i].a, prs[i].b)
		cmd.Env = append(os.Environ(), "VERIF_CODEC_INPUTS="+ip, "GORACE=halt_on_error=1 exitcode=66")
		var stderr strings.Builder
		cmd.Stderr = &stderr
		_, err := cmd.Output()
		mu.Lock()
		defer mu.Unlock()
		if strings.Contains(stderr.String(), "WARNING: DATA RACE") {
			races++
			fn := "?"
			if m := reRaceFn.FindStringSubmatch(stderr.String()); m != nil {
				fn = strings.TrimPrefix(m[1], "github.com/ovh/kmip-go/")
			}
			c.Violation("race:"+fn, fmt.Sprintf("data race reported by the Go race detector while %s and %s ran on two goroutines: %s", prs[i].a, prs[i].b, firstLines(stderr.String(), 14)),
				map[string]any{"kind": "race-pair", "a": prs[i].a, "b": prs[i].b, "report": firstLines(stderr.String(), 40)})
			return
		}
		if err != nil && firstErr == nil {
			firstErr = fmt.Errorf("vrace pair %s %s: %v: %s", prs[i].a, prs[i].b, err, firstLines(stderr.String(), 5))
		}
	})
	vlib.Parallel(rounds, 16, func(i int) {
		cmd := exec.Command(vr, fmt.Sprint(i))
		cmd.Env = append(os.Environ(), "VERIF_CODEC_INPUTS="+ip, "GORACE=halt_on_error=1 exitcode=66")
		var stderr strings.Builder
		cmd.Stderr = &stderr
		_, err := cmd.Output()
		mu.Lock()
		defer mu.Unlock()
		if strings.Contains(stderr.String(), "WARNING: DATA RACE") {
			races++
			fn := "?"
			if m := reRaceFn.FindStringSubmatch(stderr.String()); m != nil {
				fn = strings.TrimPrefix(m[1], "github.com/ovh/kmip-go/")
			}
			c.Violation("race:"+fn, "data race reported by the Go race detector in the free-running pass: "+firstLines(stderr.String(), 14),
				map[string]any{"kind": "race-round", "round": i, "report": firstLines(stderr.String(), 40)})
			return
		}
		if err != nil && firstErr == nil {
			firstErr = fmt.Errorf("vrace round %d: %v: %s", i, err, firstLines(stderr.String(), 5))
		}
	})
	c.Extra["race_pass"] = map[string]any{"fresh_process_rounds": rounds, "operation_pairs": len(prs), "race_reports": races,
		"note": "free-running real goroutines, built with -race and without the overlay; supporting evidence for the 'no data race' clause, not exhaustive"}
	return firstErr
}

func firstLines(s string, n int) string {
	l := strings.Split(s, "\n")
	if len(l) > n {
		l = l[:n]
	}
	return strings.Join(l, " | ")
}
