//go:build verifmc && !verifmc_codec

package main

import "verifharness/vlib"

func codecRef(string) string     { return "" }
func codecPre(*vlib.Check) error  { return nil }
func codecPost(*vlib.Check) error { return nil }
