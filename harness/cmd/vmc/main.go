//go:build verifmc

// vmc runs the scenarios of the controlled-scheduler engine. Modes:
//
//	vmc <ID>                      driver: runs the property's shards as sub-processes, merges, writes evidence
//	vmc shard <json>              one exploration (scenario, bounds), prints a JSON result
//	vmc replay <replay.json>      replays a recorded schedule with a trace
package main

import (
	"context"
	"encoding/json"
	"fmt"
	"os"
	"os/exec"
	"regexp"
	"sort"
	"strconv"
	"strings"
	"sync"
	"time"

	mc "github.com/ovh/kmip-go/zz_verif/mc"
	"verifharness/scen"
	"verifharness/vlib"
)

type Shard struct {
	Scenario string   `json:"scenario"`
	Pre      int      `json:"pre"`
	Fault    int      `json:"fault"`
	NoCache  bool     `json:"nocache,omitempty"`
	Delay    bool     `json:"delay,omitempty"` // delay bounding: "pre" counts deviations from the deterministic scheduler
	MaxExecs int64    `json:"maxexecs,omitempty"`
	DeadS    int      `json:"deadline_s,omitempty"`
	Seed     uint64   `json:"seed,omitempty"`
	Part     int      `json:"part,omitempty"` // this shard explores the first-level branches with index Part modulo Parts
	Parts    int      `json:"parts,omitempty"`
	Bounds   [][2]int `json:"bounds,omitempty"` // successive (preemption, fault) bounds explored with one shared state cache; default [[pre,fault]]
}

type BoundResult struct {
	Pre, Fault  int
	Execs       int64
	States      int64
	Transitions int64
	Complete    bool
	WallS       float64
}

type ShardViolation struct {
	Sig     string   `json:"sig"`
	Desc    string   `json:"desc"`
	Choices []int    `json:"choices"`
	Trace   []string `json:"trace"`
	Count   int64    `json:"count"`
	Stable  bool     `json:"stable"`
}

type ShardResult struct {
	Shard       Shard            `json:"shard"`
	Execs       int64            `json:"execs"`
	States      int64            `json:"states"`
	Transitions int64            `json:"transitions"`
	Cuts        int64            `json:"cuts"`
	MaxDepth    int              `json:"max_depth"`
	Outcomes    map[string]int64 `json:"outcomes"`
	Violations  []ShardViolation `json:"violations"`
	Fatal       []string         `json:"fatal"`
	Complete    bool             `json:"complete"`
	Truncated   int64            `json:"truncated"`
	WallS       float64          `json:"wall_s"`
	SampleTrace []string         `json:"sample_trace"`
	PerBound    []BoundResult    `json:"per_bound"`
}

func getScenario(name string) *scen.Scenario {
	f := scen.Registry[name]
	if f == nil {
		fmt.Fprintln(os.Stderr, "unknown scenario", name)
		os.Exit(2)
	}
	s := f()
	if s.Oracle == nil {
		s.Oracle = mc.DefaultOracle
	}
	return s
}

func runShard(sh Shard) *ShardResult {
	s := getScenario(sh.Scenario)
	bounds := sh.Bounds
	if len(bounds) == 0 {
		bounds = [][2]int{{sh.Pre, sh.Fault}}
	}
	var deadline time.Time
	if sh.DeadS > 0 {
		deadline = time.Now().Add(time.Duration(sh.DeadS) * time.Second)
	}
	cache := mc.NewStateCache()
	r := &mc.Result{Outcomes: map[string]int64{}, Violations: map[string]*mc.Violation{}, Complete: true}
	var per []BoundResult
	for _, b := range bounds {
		cfg := mc.Config{PreBound: b[0], FaultBound: b[1], MaxSteps: s.MaxSteps, NoCache: sh.NoCache, Delay: sh.Delay, MaxExecs: sh.MaxExecs, Seed: sh.Seed, Deadline: deadline, Cache: cache, Part: sh.Part, Parts: sh.Parts}
		before := int64(cache.Len())
		rb := mc.Explore(cfg, s.Body, s.Oracle)
		r.Execs += rb.Execs
		r.Transitions += rb.Transitions
		r.Cuts += rb.Cuts
		r.Truncated += rb.Truncated
		r.WallS += rb.WallS
		if rb.MaxDepth > r.MaxDepth {
			r.MaxDepth = rb.MaxDepth
		}
		r.Fatal = append(r.Fatal, rb.Fatal...)
		for k, v := range rb.Outcomes {
			r.Outcomes[k] += v
		}
		for k, v := range rb.Violations {
			if old := r.Violations[k]; old != nil {
				old.Count += v.Count
			} else {
				r.Violations[k] = v
			}
		}
		per = append(per, BoundResult{Pre: b[0], Fault: b[1], Execs: rb.Execs, States: int64(cache.Len()) - before, Transitions: rb.Transitions, Complete: rb.Complete, WallS: rb.WallS})
		if rb.Truncated > 0 {
			rb.Complete = false // executions cut at the step horizon: the bound was not fully explored
			per[len(per)-1].Complete = false
		}
		if !rb.Complete {
			r.Complete = false
			break
		}
	}
	r.States = int64(cache.Len())
	if sh.NoCache {
		r.States = r.Transitions
	}
	out := &ShardResult{Shard: sh, Execs: r.Execs, States: r.States, Transitions: r.Transitions, Cuts: r.Cuts, MaxDepth: r.MaxDepth,
		Outcomes: r.Outcomes, Fatal: r.Fatal, Complete: r.Complete, Truncated: r.Truncated, WallS: r.WallS, PerBound: per}
	// default schedule as a sample
	x := mc.Replay(nil, s.MaxSteps, s.Body)
	out.SampleTrace = x.Trace
	if len(out.SampleTrace) > 60 {
		out.SampleTrace = append(out.SampleTrace[:60], "…")
	}
	var sigs []string
	for k := range r.Violations {
		sigs = append(sigs, k)
	}
	sort.Strings(sigs)
	for _, k := range sigs {
		v := r.Violations[k]
		sv := ShardViolation{Sig: v.Sig, Desc: v.Desc, Choices: v.Choices, Count: v.Count, Stable: true}
		// determinism: the same schedule must give the same trace and the same finding, 3 times
		var ref []string
		for i := 0; i < 3; i++ {
			x := mc.Replay(v.Choices, s.MaxSteps, s.Body)
			fs, _ := s.Oracle(x)
			found := false
			for _, f := range fs {
				if f.Sig == v.Sig {
					found = true
				}
			}
			if i == 0 {
				ref = x.Trace
			} else if strings.Join(ref, "\n") != strings.Join(x.Trace, "\n") {
				sv.Stable = false
			}
			if !found || len(x.Fatal) > 0 {
				sv.Stable = false
			}
		}
		sv.Trace = ref
		out.Violations = append(out.Violations, sv)
	}
	return out
}

func main() {
	if len(os.Args) < 2 {
		fmt.Fprintln(os.Stderr, "usage: vmc <ID> | shard <json> | replay <file>")
		os.Exit(2)
	}
	switch os.Args[1] {
	case "shard":
		var sh Shard
		if err := json.Unmarshal([]byte(os.Args[2]), &sh); err != nil {
			fmt.Fprintln(os.Stderr, err)
			os.Exit(2)
		}
		b, _ := json.Marshal(runShard(sh))
		fmt.Println(string(b))
	case "replay":
		replay(os.Args[2])
	case "codec-ref":
		fmt.Print(codecRef(os.Args[2]))
	case "list":
		var names []string
		for n := range scen.Registry {
			names = append(names, n)
		}
		sort.Strings(names)
		for _, n := range names {
			fmt.Println(n, "-", scen.Registry[n]().Doc)
		}
	default:
		os.Exit(drive(os.Args[1]))
	}
}

func replay(path string) {
	b, err := os.ReadFile(path)
	if err != nil {
		fmt.Fprintln(os.Stderr, err)
		os.Exit(2)
	}
	var f struct {
		Property string `json:"property"`
		Sig      string `json:"sig"`
		Replay   struct {
			Scenario string `json:"scenario"`
			Choices  []int  `json:"choices"`
		} `json:"replay"`
	}
	if err := json.Unmarshal(b, &f); err != nil {
		fmt.Fprintln(os.Stderr, err)
		os.Exit(2)
	}
	s := getScenario(f.Replay.Scenario)
	x := mc.Replay(f.Replay.Choices, s.MaxSteps, s.Body)
	for i, t := range x.Trace {
		fmt.Printf("%4d %s\n", i, t)
	}
	fs, out := s.Oracle(x)
	fmt.Println("outcome:", out)
	hit := false
	for _, fd := range fs {
		fmt.Println("finding:", fd.Sig, "-", fd.Desc)
		if fd.Sig == f.Sig {
			hit = true
		}
	}
	if len(x.Fatal) > 0 {
		fmt.Println("fatal:", x.Fatal)
		os.Exit(2)
	}
	if hit {
		fmt.Printf("VIOLATION property=%s replay=%s\n", f.Property, path)
		os.Exit(1)
	}
}

// drive runs all shards of a property in parallel sub-processes and merges the results.
func drive(id string) int {
	plan, ok := plans[id]
	if !ok {
		fmt.Fprintln(os.Stderr, "no mc plan for", id)
		return 2
	}
	prop := id
	if plan.Property != "" {
		prop = plan.Property
	}
	c := vlib.New(prop, plan.Level)
	shards := plan.Quick
	if c.Thorough() {
		shards = plan.Thorough
	}
	c.Rule = plan.Rule
	c.Assumptions = plan.Assumptions
	if plan.Pre != nil {
		if err := plan.Pre(c); err != nil {
			fmt.Fprintln(os.Stderr, "MACHINERY:", err)
			c.Finish()
			return 2
		}
	}
	results := make([]*ShardResult, len(shards))
	errs := make([]string, len(shards))
	var wg sync.WaitGroup
	sem := make(chan struct{}, 16)
	for i := range shards {
		wg.Add(1)
		go func(i int) {
			defer wg.Done()
			sem <- struct{}{}
			defer func() { <-sem }()
			sh := shards[i]
			sh.Seed = uint64(c.Seed)
			js, _ := json.Marshal(sh)
			// a shard stops by itself at its deadline; one that is still there long after it is stuck inside an execution (an
			// operation of the code under test that the shims do not control): it is killed and reported as a machinery failure
			limit := time.Duration(sh.DeadS)*2*time.Second + 3*time.Minute
			cctx, ccancel := context.WithTimeout(context.Background(), limit)
			cmd := exec.CommandContext(cctx, os.Args[0], "shard", string(js))
			cmd.Env = append(os.Environ(), "GOMAXPROCS=1")
			var stderr strings.Builder
			cmd.Stderr = &stderr
			out, err := cmd.Output()
			hung := cctx.Err() == context.DeadlineExceeded
			ccancel()
			if hung {
				errs[i] = fmt.Sprintf("shard %s: still running %s after its start (deadline %d s): killed; an execution is stuck outside the controlled scheduler", js, limit, sh.DeadS)
				return
			}
			if err != nil {
				errs[i] = fmt.Sprintf("shard %s: %v: %s", js, err, tail(stderr.String(), 2000))
				return
			}
			var r ShardResult
			if err := json.Unmarshal(out, &r); err != nil {
				errs[i] = fmt.Sprintf("shard %s: bad output: %v", js, err)
				return
			}
			results[i] = &r
		}(i)
	}
	wg.Wait()
	machinery := false
	allComplete := true
	var perShard []map[string]any
	distinctOutcomes := map[string]bool{}
	for i, r := range results {
		if r == nil {
			fmt.Fprintln(os.Stderr, "MACHINERY:", errs[i])
			machinery = true
			continue
		}
		if len(r.Fatal) > 0 {
			fmt.Fprintln(os.Stderr, "MACHINERY:", r.Shard.Scenario, r.Fatal)
			machinery = true
		}
		c.Evaluations += r.Execs
		c.States += r.States
		c.Transitions += r.Transitions
		c.Traces += r.Execs
		if !r.Complete {
			allComplete = false
		}
		for k, n := range r.Outcomes {
			if m := reSeq.FindStringSubmatch(k); m != nil {
				// a scenario that enumerates operation sequences inside one execution reports their number
				q, _ := strconv.ParseInt(m[1], 10, 64)
				c.Evaluations += q
				c.Transitions += q
				c.Extra["sequences_enumerated_in_"+r.Shard.Scenario] = q
			}
			c.Outcomes[r.Shard.Scenario+" => "+k] += n
			distinctOutcomes[r.Shard.Scenario+" => "+k] = true
		}
		perShard = append(perShard, map[string]any{"scenario": r.Shard.Scenario, "pre_bound": r.Shard.Pre, "fault_bound": r.Shard.Fault, "bounding": map[bool]string{false: "preemption", true: "delay"}[r.Shard.Delay], "cache": !r.Shard.NoCache,
			"executions": r.Execs, "states": r.States, "transitions": r.Transitions, "cache_cuts": r.Cuts, "max_depth": r.MaxDepth, "complete": r.Complete,
			"truncated_executions": r.Truncated, "wall_s": r.WallS, "distinct_outcomes": len(r.Outcomes), "per_bound": r.PerBound})
		if i < 3 {
			c.Sample(map[string]any{"scenario": r.Shard.Scenario, "default_schedule": r.SampleTrace})
		}
		for _, v := range r.Violations {
			if plan.Keep != nil && !plan.Keep(v.Sig) {
				continue
			}
			if !v.Stable {
				fmt.Fprintf(os.Stderr, "MACHINERY: non-reproducible schedule for %s in %s\n", v.Sig, r.Shard.Scenario)
				machinery = true
				continue
			}
			if !c.HasViolation(v.Sig) {
				c.Violation(v.Sig, fmt.Sprintf("[%s, pre<=%d fault<=%d] %s; schedule of %d steps", r.Shard.Scenario, r.Shard.Pre, r.Shard.Fault, v.Desc, len(v.Choices)),
					map[string]any{"kind": "schedule", "scenario": r.Shard.Scenario, "choices": v.Choices, "trace": v.Trace})
			} else {
				c.Violation(v.Sig, "", nil)
			}
		}
	}
	if plan.Post != nil {
		if err := plan.Post(c); err != nil {
			fmt.Fprintln(os.Stderr, "MACHINERY:", err)
			machinery = true
		}
	}
	c.DistinctN += int64(len(distinctOutcomes))
	c.Extra["shards"] = perShard
	c.Extra["bounds_completed"] = allComplete
	c.Exhaustive = allComplete
	if machinery {
		c.Finish()
		return 2
	}
	return c.Finish()
}

var reSeq = regexp.MustCompile(`sequences=(\d+)`)

func tail(s string, n int) string {
	if len(s) > n {
		return s[len(s)-n:]
	}
	return s
}
