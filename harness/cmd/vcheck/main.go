package main

import (
	"bytes"
	"fmt"
	"io"
	"os"
	"os/exec"
	"regexp"
	"strings"

	"verifharness/checks"
	"verifharness/vlib"
)

func main() {
	if len(os.Args) < 2 {
		fmt.Fprintln(os.Stderr, "usage: vcheck <ID> [--replay file]")
		os.Exit(2)
	}
	id := os.Args[1]
	if id == "--gen-pinned-registry" {
		if err := checks.GenPinned(); err != nil {
			fmt.Fprintln(os.Stderr, err)
			os.Exit(2)
		}
		return
	}
	spec, ok := checks.All[id]
	if !ok {
		fmt.Fprintln(os.Stderr, "unknown check", id)
		os.Exit(2)
	}
	if os.Getenv("VERIF_SUPERVISED") == "" && vlib.History() == "" {
		os.Exit(supervise(id, spec.Level))
	}
	c := vlib.New(id, spec.Level)
	if len(os.Args) >= 4 && os.Args[2] == "--replay" {
		os.Setenv("VERIF_REPLAY", os.Args[3])
	}
	spec.Run(c)
	os.Exit(c.Finish())
}

var reGoroutineFn = regexp.MustCompile(`(?m)^(github\.com/ovh/kmip-go[^\s(]*)\(`)

// supervise runs the check in a child process. Several checks drive the library's own goroutines (client and server
// connections): a panic in one of them - there is no recover in the read and write loops - kills the whole process. The
// supervisor turns such a death into a violation (with the crash report as replay material) instead of an inconclusive exit.
func supervise(id, level string) int {
	cmd := exec.Command(os.Args[0], os.Args[1:]...)
	cmd.Env = append(os.Environ(), "VERIF_SUPERVISED=1")
	cmd.Stdout = os.Stdout
	var errBuf bytes.Buffer
	cmd.Stderr = io.MultiWriter(&tailWriter{w: os.Stderr, max: 4000}, &errBuf)
	err := cmd.Run()
	if err == nil {
		return 0
	}
	code := 2
	if ee, ok := err.(*exec.ExitError); ok {
		code = ee.ExitCode()
	}
	if code == 0 || code == 1 {
		return code
	}
	se := errBuf.String()
	i := strings.Index(se, "panic: ")
	if j := strings.Index(se, "fatal error: "); j >= 0 && (i < 0 || j < i) {
		i = j
	}
	if i < 0 {
		return code // not a crash of the code under test: machinery failure, reported as such
	}
	report := se[i:]
	if len(report) > 6000 {
		report = report[:6000]
	}
	first := report
	if k := strings.Index(first, "\n"); k >= 0 {
		first = first[:k]
	}
	site := "?"
	if m := reGoroutineFn.FindStringSubmatch(report); m != nil {
		site = strings.TrimPrefix(m[1], "github.com/ovh/")
	}
	c := vlib.New(id, level)
	c.Rule = "the check process was killed by a panic in a goroutine of the library (the check itself did not finish; counts are not available for this run)"
	c.Eval([]byte("crashed run: "+first), true) // the one thing this run established
	c.Violation("process-crashed:"+site+":"+checks.ErrClass(fmt.Errorf("%s", first)), "the process running the check died: "+first+" (in "+site+")", map[string]any{"kind": "crash-report", "stderr": report})
	return c.Finish()
}

// tailWriter passes at most max bytes through (a crashing process can dump a lot).
type tailWriter struct {
	w   io.Writer
	max int
}

func (t *tailWriter) Write(p []byte) (int, error) {
	if t.max > 0 {
		q := p
		if len(q) > t.max {
			q = q[:t.max]
		}
		t.max -= len(q)
		_, _ = t.w.Write(q)
	}
	return len(p), nil
}
