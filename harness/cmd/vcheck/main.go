package main

import (
	"fmt"
	"os"

	"verifharness/checks"
	"verifharness/vlib"
)

func main() {
	if len(os.Args) < 2 {
		fmt.Fprintln(os.Stderr, "usage: vcheck <ID> [--replay file]")
		os.Exit(2)
	}
	id := os.Args[1]
	if id == "--gen-pinned-registry" {
		if err := checks.GenPinned(); err != nil {
			fmt.Fprintln(os.Stderr, err)
			os.Exit(2)
		}
		return
	}
	spec, ok := checks.All[id]
	if !ok {
		fmt.Fprintln(os.Stderr, "unknown check", id)
		os.Exit(2)
	}
	c := vlib.New(id, spec.Level)
	if len(os.Args) >= 4 && os.Args[2] == "--replay" {
		os.Setenv("VERIF_REPLAY", os.Args[3])
	}
	spec.Run(c)
	os.Exit(c.Finish())
}
