package vlib

import (
	"runtime"
	"strings"
)

// PanicSite, called inside a deferred recover handler, returns the innermost frame of the panicking
// stack that belongs to the library under test (function name only: stable across line edits).
func PanicSite() string {
	pcs := make([]uintptr, 64)
	n := runtime.Callers(2, pcs)
	fr := runtime.CallersFrames(pcs[:n])
	for {
		f, more := fr.Next()
		if strings.Contains(f.Function, "github.com/ovh/kmip-go") {
			fn := f.Function
			fn = strings.TrimPrefix(fn, "github.com/ovh/kmip-go/")
			fn = strings.TrimPrefix(fn, "github.com/ovh/")
			// strip closure suffixes .func1.2
			for {
				i := strings.LastIndex(fn, ".")
				if i < 0 {
					break
				}
				suf := fn[i+1:]
				if strings.HasPrefix(suf, "func") || isDigits(suf) {
					fn = fn[:i]
					continue
				}
				break
			}
			return fn
		}
		if !more {
			break
		}
	}
	return "?"
}

func isDigits(s string) bool {
	if s == "" {
		return false
	}
	for _, c := range s {
		if c < '0' || c > '9' {
			return false
		}
	}
	return true
}
