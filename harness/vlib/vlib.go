// Package vlib is the shared runner library: counters, violation de-duplication by signature,
// known-finding matching, replay files and the evidence file.
package vlib

import (
	"crypto/sha256"
	"encoding/hex"
	"encoding/json"
	"fmt"
	"io"
	"log/slog"
	"os"
	"os/exec"
	"path/filepath"
	"regexp"
	"sort"
	"strconv"
	"strings"
	"sync"
	"time"
)

func init() {
	// the library logs handler panics with full stack traces through slog.Default()
	slog.SetDefault(slog.New(slog.NewTextHandler(io.Discard, &slog.HandlerOptions{Level: slog.Level(100)})))
}

func Root() string {
	if r := os.Getenv("VERIF_ROOT"); r != "" {
		return r
	}
	return "/verif"
}

type Finding struct {
	Status   string `json:"status"` // "known" or "fixed"
	Property string `json:"property"`
	Sig      string `json:"sig"`
	What     string `json:"what"`
	Commit   string `json:"commit,omitempty"`
}

type violation struct {
	Sig    string
	Desc   string
	Replay any
	Count  int
}

type Check struct {
	ID    string
	Tier  string
	Seed  int64
	Level string // exploration | fault_enumeration | model_checking

	mu          sync.Mutex
	start       time.Time
	Evaluations int64
	distinct    map[[16]byte]struct{}
	DistinctN   int64 // used when distinct is counted by the caller
	States      int64
	Transitions int64
	Traces      int64
	Samples     []any
	Rule        string
	Assumptions []string
	Extra       map[string]any
	Exhaustive  bool
	Outcomes    map[string]int64
	viol        map[string]*violation
	order       []string
	MaxSamples  int

	childIncomplete bool
}

func New(id, level string) *Check {
	c := &Check{ID: id, Level: level, start: time.Now(), distinct: map[[16]byte]struct{}{}, Extra: map[string]any{},
		viol: map[string]*violation{}, Outcomes: map[string]int64{}, MaxSamples: 6}
	c.Tier = os.Getenv("VERIF_TIER")
	if c.Tier != "thorough" {
		c.Tier = "quick"
	}
	if s := os.Getenv("VERIF_SEED"); s != "" {
		c.Seed, _ = strconv.ParseInt(s, 10, 64)
	}
	return c
}

func (c *Check) Thorough() bool { return c.Tier == "thorough" }

// Eval counts one evaluated case; key (canonical bytes of the case) feeds the distinct counter when nontrivial.
func (c *Check) Eval(key []byte, nontrivial bool) {
	c.mu.Lock()
	c.Evaluations++
	if nontrivial && key != nil {
		h := sha256.Sum256(key)
		var k [16]byte
		copy(k[:], h[:16])
		c.distinct[k] = struct{}{}
	}
	c.mu.Unlock()
}

// Mu runs f under the check's lock (for counters updated from parallel workers).
func (c *Check) Mu(f func()) {
	c.mu.Lock()
	f()
	c.mu.Unlock()
}

func (c *Check) Outcome(k string) {
	c.mu.Lock()
	c.Outcomes[k]++
	c.mu.Unlock()
}

func (c *Check) Sample(s any) {
	c.mu.Lock()
	if len(c.Samples) < c.MaxSamples {
		c.Samples = append(c.Samples, s)
	}
	c.mu.Unlock()
}

// Violation records a violation under a signature (what fails, independent of the incidental input).
func (c *Check) Violation(sig, desc string, replay any) {
	c.mu.Lock()
	defer c.mu.Unlock()
	v := c.viol[sig]
	if v == nil {
		v = &violation{Sig: sig, Desc: desc, Replay: replay}
		c.viol[sig] = v
		c.order = append(c.order, sig)
	}
	v.Count++
}

func (c *Check) HasViolation(sig string) bool {
	c.mu.Lock()
	defer c.mu.Unlock()
	return c.viol[sig] != nil
}

var reKnown = regexp.MustCompile(`^known: property=(\S+) sig=("(?:[^"\\]|\\.)*") (.*)$`)
var reFixed = regexp.MustCompile(`^fixed: property=(\S+) (\S+) (.*)$`)

// LoadFindings parses /verif/known_findings.txt:
//
//	known: property=<id> sig="<signature>" <what fails>
//	fixed: property=<id> <commit> <what failed>
//
// Only "known" lines suppress anything; "fixed" lines are a record.
func LoadFindings() []Finding {
	var out []Finding
	b, err := os.ReadFile(filepath.Join(Root(), "known_findings.txt"))
	if err != nil {
		return nil
	}
	for _, l := range strings.Split(string(b), "\n") {
		l = strings.TrimSpace(l)
		if l == "" || strings.HasPrefix(l, "#") {
			continue
		}
		if m := reKnown.FindStringSubmatch(l); m != nil {
			sig, err := strconv.Unquote(m[2])
			if err != nil {
				fmt.Fprintf(os.Stderr, "known_findings.txt: bad signature in %q\n", l)
				os.Exit(2)
			}
			out = append(out, Finding{Status: "known", Property: m[1], Sig: sig, What: m[3]})
			continue
		}
		if m := reFixed.FindStringSubmatch(l); m != nil {
			out = append(out, Finding{Status: "fixed", Property: m[1], Commit: m[2], What: m[3]})
			continue
		}
		fmt.Fprintf(os.Stderr, "known_findings.txt: unparsable line %q\n", l)
		os.Exit(2)
	}
	return out
}

// History names the process history this (child) process runs under; "" in the parent. See RunHistories.
func History() string { return os.Getenv("VERIF_HISTORY") }

type childViolation struct {
	Sig    string `json:"sig"`
	Desc   string `json:"desc"`
	Replay any    `json:"replay"`
	Count  int    `json:"count"`
}

type childResult struct {
	Evaluations int64            `json:"evaluations"`
	Distinct    int64            `json:"distinct"`
	States      int64            `json:"states"`
	Transitions int64            `json:"transitions"`
	Traces      int64            `json:"traces"`
	Exhaustive  bool             `json:"exhaustive"`
	Violations  []childViolation `json:"violations"`
}

// RunHistories re-runs this check in fresh child processes, one per named process history (state that only a new process
// resets: lazily built per-type plans, registries, pools). Each child is this binary with VERIF_HISTORY=<name>; the check
// function looks at History() to prepare that history (e.g. a warm-up) before doing its normal work. The children's counts
// and violations are folded into this check; a child that dies is itself a violation (the library crashed the process).
func (c *Check) RunHistories(names []string) {
	if History() != "" || len(names) == 0 {
		return
	}
	type res struct {
		name string
		r    childResult
		err  string
	}
	out := make([]res, len(names))
	var wg sync.WaitGroup
	for i, n := range names {
		wg.Add(1)
		go func(i int, n string) {
			defer wg.Done()
			out[i].name = n
			f, err := os.CreateTemp("", "verif-child-*.json")
			if err != nil {
				out[i].err = err.Error()
				return
			}
			f.Close()
			defer os.Remove(f.Name())
			cmd := exec.Command(os.Args[0], os.Args[1:]...)
			cmd.Env = append(os.Environ(), "VERIF_HISTORY="+n, "VERIF_CHILD_OUT="+f.Name())
			ob, rerr := cmd.CombinedOutput()
			b, _ := os.ReadFile(f.Name())
			if jerr := json.Unmarshal(b, &out[i].r); rerr != nil || jerr != nil {
				tail := string(ob)
				if len(tail) > 1500 {
					tail = tail[len(tail)-1500:]
				}
				out[i].err = fmt.Sprintf("child process for history %q failed (%v, %v): %s", n, rerr, jerr, tail)
			}
		}(i, n)
	}
	wg.Wait()
	c.mu.Lock()
	defer c.mu.Unlock()
	hist := map[string]any{}
	for _, o := range out {
		if o.err != "" {
			sig := "process-died:history=" + o.name
			c.viol[sig] = &violation{Sig: sig, Desc: o.err, Replay: map[string]any{"kind": "process-history", "history": o.name}, Count: 1}
			c.order = append(c.order, sig)
			continue
		}
		c.Evaluations += o.r.Evaluations
		c.DistinctN += o.r.Distinct
		c.States += o.r.States
		c.Transitions += o.r.Transitions
		c.Traces += o.r.Traces
		if !o.r.Exhaustive {
			c.childIncomplete = true
		}
		hist[o.name] = map[string]any{"evaluations": o.r.Evaluations, "violations": len(o.r.Violations)}
		for _, v := range o.r.Violations {
			if old := c.viol[v.Sig]; old != nil {
				old.Count += v.Count
				continue
			}
			rep := map[string]any{"process_history": o.name, "replay": v.Replay}
			c.viol[v.Sig] = &violation{Sig: v.Sig, Desc: "[process history: " + o.name + "] " + v.Desc, Replay: rep, Count: v.Count}
			c.order = append(c.order, v.Sig)
		}
	}
	c.Extra["process_histories"] = hist
}

// finishChild writes the machine-readable result of a child process (see RunHistories).
func (c *Check) finishChild(path string) int {
	r := childResult{Evaluations: c.Evaluations, Distinct: int64(len(c.distinct)) + c.DistinctN, States: c.States, Transitions: c.Transitions, Traces: c.Traces, Exhaustive: c.Exhaustive}
	sort.Strings(c.order)
	for _, sig := range c.order {
		v := c.viol[sig]
		r.Violations = append(r.Violations, childViolation{Sig: v.Sig, Desc: v.Desc, Replay: v.Replay, Count: v.Count})
	}
	b, _ := json.Marshal(r)
	if err := os.WriteFile(path, b, 0o644); err != nil {
		fmt.Fprintln(os.Stderr, "cannot write child result:", err)
		return 2
	}
	return 0
}

// Finish prints KNOWN-FINDING / VIOLATION lines, writes replay and evidence files and returns the exit code.
func (c *Check) Finish() int {
	c.mu.Lock()
	defer c.mu.Unlock()
	if p := os.Getenv("VERIF_CHILD_OUT"); p != "" && History() != "" {
		return c.finishChild(p)
	}
	if c.childIncomplete {
		c.Exhaustive = false
	}
	known := map[string]Finding{}
	for _, f := range LoadFindings() {
		if f.Property == c.ID && f.Status == "known" {
			known[f.Sig] = f
		}
	}
	nviol := 0
	knownSeen := []string{}
	sort.Strings(c.order)
	rdir := filepath.Join(Root(), "replays", c.ID)
	for _, sig := range c.order {
		v := c.viol[sig]
		if f, ok := known[sig]; ok {
			fmt.Printf("KNOWN-FINDING: property=%s %s [sig=%s, %d case(s) this run]\n", c.ID, f.What, sig, v.Count)
			knownSeen = append(knownSeen, sig)
			continue
		}
		nviol++
		_ = os.MkdirAll(rdir, 0o755)
		h := sha256.Sum256([]byte(sig))
		path := filepath.Join(rdir, hex.EncodeToString(h[:6])+".json")
		rb, _ := json.MarshalIndent(map[string]any{"property": c.ID, "sig": sig, "desc": v.Desc, "count": v.Count, "replay": v.Replay}, "", " ")
		_ = os.WriteFile(path, rb, 0o644)
		if nviol <= 40 {
			fmt.Printf("VIOLATION property=%s replay=%s sig=%q %s (%d case(s))\n", c.ID, path, sig, oneLine(v.Desc), v.Count)
		}
	}
	cov := map[string]any{}
	for k, v := range c.Extra {
		cov[k] = v
	}
	dn := int64(len(c.distinct)) + c.DistinctN
	cov["evaluations"] = c.Evaluations
	cov["distinct_nontrivial"] = dn
	cov["rule"] = c.Rule
	if len(c.Samples) == 0 {
		c.Samples = []any{"(no sample recorded)"}
	}
	cov["samples"] = c.Samples
	cov["exhaustive"] = c.Exhaustive
	if c.Level == "model_checking" {
		cov["states"] = c.States
		cov["transitions"] = c.Transitions
		cov["traces_validated_against_impl"] = c.Traces
	}
	if len(c.Outcomes) > 0 {
		cov["outcomes"] = c.Outcomes
	}
	cov["known_findings_seen"] = knownSeen
	ev := map[string]any{
		"property_id": c.ID, "tier": c.Tier, "seed": c.Seed, "level": c.Level, "coverage": cov,
		"assumptions": c.Assumptions, "wall_s": time.Since(c.start).Seconds(), "violations": nviol,
	}
	if c.Assumptions == nil {
		ev["assumptions"] = []string{}
	}
	eb, _ := json.MarshalIndent(ev, "", " ")
	_ = os.MkdirAll(filepath.Join(Root(), "evidence"), 0o755)
	evName := c.ID + ".json"
	if n := os.Getenv("VERIF_EVIDENCE_NAME"); n != "" {
		evName = n // partial evidence of a check made of two parts (merged by the second part)
	}
	if err := os.WriteFile(filepath.Join(Root(), "evidence", evName), eb, 0o644); err != nil {
		fmt.Fprintln(os.Stderr, "cannot write evidence:", err)
		return 2
	}
	fmt.Printf("%s %s: evaluations=%d distinct=%d states=%d transitions=%d violations=%d known=%d wall=%.1fs exhaustive=%v\n",
		c.ID, c.Tier, c.Evaluations, dn, c.States, c.Transitions, nviol, len(knownSeen), time.Since(c.start).Seconds(), c.Exhaustive)
	if nviol > 0 {
		return 1
	}
	return 0
}

func oneLine(s string) string {
	s = strings.ReplaceAll(s, "\n", " | ")
	if len(s) > 300 {
		s = s[:300] + "…"
	}
	return s
}

// Parallel runs f(i) for i in [0,n) on all cores.
func Parallel(n int, workers int, f func(i int)) {
	if workers <= 0 {
		workers = 16
	}
	var wg sync.WaitGroup
	ch := make(chan int, 256)
	for w := 0; w < workers; w++ {
		wg.Add(1)
		go func() {
			defer wg.Done()
			for i := range ch {
				f(i)
			}
		}()
	}
	for i := 0; i < n; i++ {
		ch <- i
	}
	close(ch)
	wg.Wait()
}

// Catch runs f and returns the recovered panic value and a short site (first frame inside the library).
func Catch(f func()) (pv any, site string) {
	defer func() {
		if r := recover(); r != nil {
			pv = r
			site = PanicSite()
		}
	}()
	f()
	return nil, ""
}
