// Package enum holds the exhaustive, deviation-bounded generators of inputs.
package enum

import (
	"math"
	"math/big"

	"verifharness/refttlv"
)

type N = refttlv.Node

func pow2(k uint) *big.Int { return new(big.Int).Lsh(big.NewInt(1), k) }

// BigAlphabet: magnitudes around byte and 8-byte boundaries, both signs.
func BigAlphabet(thorough bool) []*big.Int {
	ks := []uint{1, 2, 7, 8, 9, 16}
	if thorough {
		ks = nil
		for k := uint(1); k <= 25; k++ {
			ks = append(ks, k)
		}
		ks = append(ks, 32, 64, 128, 256, 512)
	}
	out := []*big.Int{big.NewInt(0), big.NewInt(1), big.NewInt(-1)}
	seen := map[string]bool{"0": true, "1": true, "-1": true}
	add := func(v *big.Int) {
		for _, s := range []int{1, -1} {
			x := new(big.Int).Set(v)
			if s < 0 {
				x.Neg(x)
			}
			if !seen[x.String()] {
				seen[x.String()] = true
				out = append(out, x)
			}
		}
	}
	for _, k := range ks {
		h := pow2(8*k - 1)
		f := pow2(8 * k)
		add(new(big.Int).Sub(h, big.NewInt(1)))
		add(h)
		add(new(big.Int).Add(h, big.NewInt(1)))
		add(new(big.Int).Sub(f, big.NewInt(1)))
		add(f)
		add(new(big.Int).Add(f, big.NewInt(1)))
	}
	return out
}

var LongAlphabet = []int64{0, 1, -1, 1<<52 - 1, -(1<<52 - 1), 1 << 52, -(1 << 52), 1<<52 + 1, -(1<<52 + 1), 1<<53 + 1, math.MinInt64, math.MaxInt64}
var IntAlphabet = []int64{0, 1, -1, math.MinInt32, math.MaxInt32}
var EnumAlphabet = []int64{0, 1, 2, 0x7FFFFFFF, 0x80000000, 0xFFFFFFFF}
var DateAlphabet = []int64{0, 1, -1, 1 << 31, -62135596800, 253402300799}
var IntervalAlphabet = []int64{0, 1, 1 << 31, 1<<32 - 1}

func StrLens(thorough bool) []int {
	if thorough {
		var r []int
		for i := 0; i <= 33; i++ {
			r = append(r, i)
		}
		return append(r, 255, 256, 257)
	}
	return []int{0, 1, 7, 8, 9, 15, 16, 17}
}

func bytesPattern(p, n int) []byte {
	b := make([]byte, n)
	for i := range b {
		switch p {
		case 0:
			b[i] = 0
		case 1:
			b[i] = 0xFF
		case 2:
			if i == 0 {
				b[i] = 0x80
			}
		case 3:
			b[i] = byte(i + 1)
		}
	}
	return b
}

func textPattern(n int) []byte {
	b := make([]byte, n)
	for i := range b {
		b[i] = byte('a' + i%26)
	}
	return b
}

// Leaves returns every leaf of the scalar alphabets under the given tag.
func Leaves(tag uint32, thorough bool) []*N {
	var out []*N
	for _, v := range IntAlphabet {
		out = append(out, &N{Tag: tag, Type: refttlv.TInteger, I: v})
	}
	for _, v := range LongAlphabet {
		out = append(out, &N{Tag: tag, Type: refttlv.TLongInteger, I: v})
	}
	for _, v := range BigAlphabet(thorough) {
		out = append(out, &N{Tag: tag, Type: refttlv.TBigInteger, Big: v})
	}
	for _, v := range EnumAlphabet {
		out = append(out, &N{Tag: tag, Type: refttlv.TEnumeration, I: v})
	}
	out = append(out, &N{Tag: tag, Type: refttlv.TBoolean, I: 0}, &N{Tag: tag, Type: refttlv.TBoolean, I: 1})
	for _, l := range StrLens(thorough) {
		out = append(out, &N{Tag: tag, Type: refttlv.TTextString, S: textPattern(l)})
		for p := 0; p < 4; p++ {
			if l == 0 && p > 0 {
				continue
			}
			out = append(out, &N{Tag: tag, Type: refttlv.TByteString, S: bytesPattern(p, l)})
		}
	}
	for _, v := range DateAlphabet {
		out = append(out, &N{Tag: tag, Type: refttlv.TDateTime, I: v})
	}
	for _, v := range IntervalAlphabet {
		out = append(out, &N{Tag: tag, Type: refttlv.TInterval, I: v})
	}
	return out
}

// Reps returns one or two representative leaves per (type, length class) for pair/triple products.
func Reps(tag uint32) []*N {
	return []*N{
		{Tag: tag, Type: refttlv.TInteger, I: -1},
		{Tag: tag, Type: refttlv.TLongInteger, I: math.MinInt64},
		{Tag: tag, Type: refttlv.TBigInteger, Big: big.NewInt(0)},
		{Tag: tag, Type: refttlv.TBigInteger, Big: new(big.Int).Neg(pow2(63))},
		{Tag: tag, Type: refttlv.TBigInteger, Big: pow2(63)},
		{Tag: tag, Type: refttlv.TEnumeration, I: 0xFFFFFFFF},
		{Tag: tag, Type: refttlv.TBoolean, I: 1},
		{Tag: tag, Type: refttlv.TTextString, S: nil},
		{Tag: tag, Type: refttlv.TTextString, S: textPattern(1)},
		{Tag: tag, Type: refttlv.TTextString, S: textPattern(8)},
		{Tag: tag, Type: refttlv.TByteString, S: bytesPattern(1, 7)},
		{Tag: tag, Type: refttlv.TByteString, S: bytesPattern(3, 9)},
		{Tag: tag, Type: refttlv.TDateTime, I: -1},
		{Tag: tag, Type: refttlv.TInterval, I: 1<<32 - 1},
		{Tag: tag, Type: refttlv.TStructure},
	}
}

var Tags = []uint32{0x420001, 0x42FFFF, 0x540001, 0x000001, 0xFFFFFF}

func st(tag uint32, kids ...*N) *N { return &N{Tag: tag, Type: refttlv.TStructure, Kids: kids} }

// Trees enumerates generic TTLV trees: every leaf under every tag; every leaf at first/middle/last
// position of a structure; nesting to depth 3; all ordered pairs (and, thorough, triples) of representatives,
// as plain siblings, as children of adjacent sibling structures and nested one level deeper.
func Trees(thorough bool, emit func(*N)) {
	for _, tag := range Tags {
		for _, l := range Leaves(tag, thorough) {
			emit(l)
		}
		emit(st(tag))
	}
	const T, U = 0x420008, 0x420069
	sent := func() *N { return &N{Tag: 0x42000A, Type: refttlv.TTextString, S: []byte("x")} }
	for _, l := range Leaves(T, thorough) {
		emit(st(U, l))
		emit(st(U, l, sent()))
		emit(st(U, sent(), l))
		emit(st(U, sent(), l, sent()))
		emit(st(U, st(T, l)))
		emit(st(U, st(T, l), sent()))
		emit(st(U, st(T), l))
		emit(st(U, st(T, st(U, l))))
		emit(st(U, st(T, st(U, l), sent()), sent()))
		emit(st(U, st(T, st(U), l), l))
	}
	reps := Reps(T)
	for _, a := range reps {
		for _, b := range reps {
			emit(st(U, a, b))
			emit(st(U, st(T, a), b))
			emit(st(U, a, st(T, b)))
			emit(st(U, st(T, a, b)))
			emit(st(U, st(T, a), st(T, b)))               // adjacent sibling structures
			emit(st(U, st(T, a), st(T, b), st(T, a)))     // ... three in a row
			emit(st(U, st(T, st(U, a)), st(T, st(U, b)))) // ... nested
			if thorough {
				for _, c := range reps {
					emit(st(U, a, b, c))
					emit(st(U, st(T, a, b), c))
					emit(st(U, a, st(T, b, c)))
					emit(st(U, st(T, a, st(U, b)), c))
				}
			}
		}
	}
	if thorough {
		ls := Leaves(T, true)
		for _, a := range ls {
			for _, b := range ls {
				emit(st(U, a, b))
				emit(st(U, st(T, a), st(T, st(U, b))))
			}
		}
	}
}

// BigTrees: size classes. Encodings whose total size lies around the powers of two where a growing output buffer is
// reallocated (4 KiB .. 128 KiB), as one long byte string at nesting depth 1, 2 and 3, as a long text string, and as a very
// wide structure (many small siblings, flat and nested).
func BigTrees(emit func(*N)) {
	const T, U = 0x420008, 0x420069
	sent := func() *N { return &N{Tag: 0x42000A, Type: refttlv.TTextString, S: []byte("x")} }
	for _, l := range []int{4072, 4073, 8160, 8168, 8176, 8177, 16360, 16369, 32752, 65512, 65521, 131049} {
		bs := &N{Tag: T, Type: refttlv.TByteString, S: bytesPattern(5, l)}
		emit(st(U, bs))
		emit(st(U, sent(), st(T, bs), sent()))
		emit(st(U, st(T, st(U, sent(), bs)), sent()))
		emit(st(U, &N{Tag: T, Type: refttlv.TTextString, S: textPattern(l)}, sent()))
	}
	for _, n := range []int{255, 512, 1100, 5000} {
		var flat, nested []*N
		for i := 0; i < n; i++ {
			flat = append(flat, &N{Tag: T, Type: refttlv.TInteger, I: int64(i)})
			nested = append(nested, st(T, &N{Tag: 0x42000A, Type: refttlv.TInteger, I: int64(i)}))
		}
		emit(st(U, flat...))
		emit(st(U, append([]*N{sent()}, nested...)...))
	}
}

// BinaryTexts: text strings whose content only the binary encoding can carry or that exercise byte-versus-character
// counting: multi-byte UTF-8 of every sequence length, invalid UTF-8 (lone continuation / lead bytes, truncated sequences,
// Latin-1, overlong forms, surrogates, 0xFF), embedded NUL. The wire length is the number of BYTES.
func BinaryTexts() [][]byte {
	return [][]byte{
		[]byte("caf\u00e9"), []byte("\u20ac"), []byte("\U0001D11E"), []byte("a\u00e9\u20ac\U0001D11Ez"), // 2-, 3-, 4-byte sequences
		{0xFF}, {0x80}, {0xC3}, {0xE2, 0x82}, {0xF0, 0x9D, 0x84}, []byte("caf\xe9"), []byte("caf\xe9 au lait"),
		{0xC0, 0xAF}, {0xED, 0xA0, 0x80}, {0xF4, 0x90, 0x80, 0x80}, {'a', 0, 'b'}, {0, 0, 0, 0, 0, 0, 0, 0},
		[]byte("1234567\xff"), []byte("12345678\xff"), []byte("\xff1234567"), []byte("\xfe\xff\x00a"),
	}
}

// BinaryTextTrees wraps every BinaryTexts value as a leaf alone, between siblings and nested.
func BinaryTextTrees(emit func(*N)) {
	const T, U = 0x420008, 0x420069
	sent := func() *N { return &N{Tag: 0x42000A, Type: refttlv.TTextString, S: []byte("x")} }
	for _, b := range BinaryTexts() {
		l := &N{Tag: T, Type: refttlv.TTextString, S: b}
		emit(l)
		emit(st(U, l))
		emit(st(U, sent(), l, sent()))
		emit(st(U, st(T, l, sent()), sent()))
	}
}
