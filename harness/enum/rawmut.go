package enum

import (
	"verifharness/refttlv"
)

// Raw is a TTLV item whose header fields can disagree with its content.
type Raw struct {
	Tag    uint32
	Type   byte
	Len    int64  // declared length; -1 = the true length
	Val    []byte // leaf value bytes (true length, no padding)
	Pad    []byte // nil = zero padding up to a multiple of 8
	NoPad  bool   // omit the padding altogether
	Kids   []*Raw
	Struct bool
}

func FromNode(n *refttlv.Node) *Raw {
	r := &Raw{Tag: n.Tag, Type: n.Type, Len: -1}
	if n.Type == refttlv.TStructure {
		r.Struct = true
		for _, k := range n.Kids {
			r.Kids = append(r.Kids, FromNode(k))
		}
		return r
	}
	b := refttlv.Generate(n)
	l := int(b[4])<<24 | int(b[5])<<16 | int(b[6])<<8 | int(b[7])
	r.Val = append([]byte{}, b[8:8+l]...)
	return r
}

func (r *Raw) Clone() *Raw {
	c := *r
	c.Val = append([]byte{}, r.Val...)
	if r.Pad != nil {
		c.Pad = append([]byte{}, r.Pad...)
	}
	c.Kids = nil
	for _, k := range r.Kids {
		c.Kids = append(c.Kids, k.Clone())
	}
	return &c
}

func (r *Raw) Bytes() []byte {
	var body []byte
	if r.Struct {
		for _, k := range r.Kids {
			body = append(body, k.Bytes()...)
		}
	} else {
		body = append(body, r.Val...)
	}
	l := int64(len(body))
	if r.Len >= 0 {
		l = r.Len
	}
	out := []byte{byte(r.Tag >> 16), byte(r.Tag >> 8), byte(r.Tag), r.Type, byte(l >> 24), byte(l >> 16), byte(l >> 8), byte(l)}
	out = append(out, body...)
	if !r.Struct && !r.NoPad {
		if r.Pad != nil {
			out = append(out, r.Pad...)
		} else {
			for len(out)%8 != 0 {
				out = append(out, 0)
			}
		}
	}
	return out
}

// Nodes lists the nodes of the tree in pre-order together with their parent.
func (r *Raw) Nodes() (nodes []*Raw, parents []*Raw) {
	var walk func(n, p *Raw)
	walk = func(n, p *Raw) {
		nodes = append(nodes, n)
		parents = append(parents, p)
		for _, k := range n.Kids {
			walk(k, n)
		}
	}
	walk(r, nil)
	return
}

var MutLens = []int64{0, 1, 3, 4, 7, 8, 9, 15, 16, 0x7FFFFFFF, 0xFFFFFFFF}

// Mutations calls emit with every single structural deviation of the encoding of root (k=1).
// The description identifies the mutation class (not the node), for signatures and samples.
func Mutations(root *Raw, emit func(desc string, data []byte)) {
	base := root.Bytes()
	n0, _ := root.Nodes()
	for idx := range n0 {
		apply := func(desc string, f func(t *Raw, n, p *Raw) bool) {
			t := root.Clone()
			ns, ps := t.Nodes()
			if f(t, ns[idx], ps[idx]) {
				emit(desc, t.Bytes())
			}
		}
		for ty := 0; ty <= 11; ty++ {
			ty := ty
			apply("retype", func(t, n, p *Raw) bool {
				if n.Type == byte(ty) {
					return false
				}
				n.Type = byte(ty)
				return true
			})
		}
		apply("retype", func(t, n, p *Raw) bool { n.Type = 0xFF; return true })
		trueLen := int64(len(n0[idx].Val))
		if n0[idx].Struct {
			trueLen = int64(len(n0[idx].Bytes()) - 8)
		}
		lens := append([]int64{}, MutLens...)
		for _, d := range []int64{-8, -1, 1, 8} {
			if trueLen+d >= 0 {
				lens = append(lens, trueLen+d)
			}
		}
		for _, l := range lens {
			l := l
			apply("length", func(t, n, p *Raw) bool {
				if l == trueLen {
					return false
				}
				n.Len = l
				return true
			})
		}
		for _, tag := range []uint32{0x000000, 0x54FFFF, 0x420008, 0x42FFFF} {
			tag := tag
			apply("retag", func(t, n, p *Raw) bool {
				if n.Tag == tag {
					return false
				}
				n.Tag = tag
				return true
			})
		}
		apply("delete", func(t, n, p *Raw) bool {
			if p == nil {
				return false
			}
			for i, k := range p.Kids {
				if k == n {
					p.Kids = append(p.Kids[:i:i], p.Kids[i+1:]...)
					return true
				}
			}
			return false
		})
		apply("duplicate", func(t, n, p *Raw) bool {
			if p == nil {
				return false
			}
			for i, k := range p.Kids {
				if k == n {
					kids := append([]*Raw{}, p.Kids[:i+1]...)
					kids = append(kids, n.Clone())
					p.Kids = append(kids, p.Kids[i+1:]...)
					return true
				}
			}
			return false
		})
		apply("swap", func(t, n, p *Raw) bool {
			if p == nil {
				return false
			}
			for i, k := range p.Kids {
				if k == n && i+1 < len(p.Kids) {
					p.Kids[i], p.Kids[i+1] = p.Kids[i+1], p.Kids[i]
					return true
				}
			}
			return false
		})
		if !n0[idx].Struct {
			apply("flipbit", func(t, n, p *Raw) bool {
				if len(n.Val) == 0 {
					return false
				}
				n.Val[0] ^= 0x80
				return true
			})
			apply("emptyvalue", func(t, n, p *Raw) bool {
				if len(n.Val) == 0 {
					return false
				}
				n.Val = nil
				return true
			})
			apply("nonzero-padding", func(t, n, p *Raw) bool {
				pl := (8 - len(n.Val)%8) % 8
				if pl == 0 {
					return false
				}
				n.Pad = make([]byte, pl)
				for i := range n.Pad {
					n.Pad[i] = 0xA5
				}
				return true
			})
			apply("no-padding", func(t, n, p *Raw) bool {
				if len(n.Val)%8 == 0 {
					return false
				}
				n.NoPad = true
				return true
			})
		}
	}
	for cut := 0; cut < len(base); cut++ {
		emit("truncate", base[:cut])
	}
}

// HeaderGrammar enumerates single items with every combination of tag, type byte, declared length and value bytes,
// alone, after a valid sibling, and nested in one and two structures.
func HeaderGrammar(thorough bool, emit func(desc string, data []byte)) {
	tags := []uint32{0x420008, 0x000000, 0x54FFFF}
	types := []byte{0, 1, 2, 3, 4, 5, 6, 7, 8, 9, 10, 11, 0xFF}
	trueLens := []int{0, 1, 2, 3, 4, 5, 7, 8, 9, 12, 15, 16, 17}
	if thorough {
		trueLens = nil
		for i := 0; i <= 17; i++ {
			trueLens = append(trueLens, i)
		}
	}
	good := (&Raw{Tag: 0x42000A, Type: 7, Len: -1, Val: []byte("ok")}).Bytes()
	for _, tag := range tags {
		for _, ty := range types {
			for _, tl := range trueLens {
				for pat := 0; pat < 4; pat++ {
					if tl == 0 && pat > 0 {
						continue
					}
					val := bytesPattern(pat, tl)
					declared := []int64{-1}
					for _, l := range MutLens {
						declared = append(declared, l)
					}
					for _, d := range []int64{-8, -1, 1, 8} {
						if int64(tl)+d >= 0 {
							declared = append(declared, int64(tl)+d)
						}
					}
					for _, dl := range declared {
						it := (&Raw{Tag: tag, Type: ty, Len: dl, Val: val}).Bytes()
						emit("item", it)
						emit("item-after-sibling", append(append([]byte{}, good...), it...))
						wrap := func(inner []byte) []byte {
							l := len(inner)
							return append([]byte{0x42, 0x00, 0x69, 0x01, byte(l >> 24), byte(l >> 16), byte(l >> 8), byte(l)}, inner...)
						}
						emit("item-in-structure", wrap(it))
						emit("item-second-in-structure", wrap(append(append([]byte{}, good...), it...)))
						if thorough {
							emit("item-in-structure-in-structure", wrap(wrap(it)))
							emit("item-first-in-structure", wrap(append(append([]byte{}, it...), good...)))
						}
					}
				}
			}
		}
	}
}
