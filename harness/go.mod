module verifharness

go 1.24.0

require github.com/ovh/kmip-go v0.0.0

replace github.com/ovh/kmip-go => /repo
