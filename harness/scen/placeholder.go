//go:build verifmc

package scen

import (
	"context"
	"errors"
	"fmt"
	"strings"

	"github.com/ovh/kmip-go"
	"github.com/ovh/kmip-go/kmipserver"
	"github.com/ovh/kmip-go/payloads"
	"github.com/ovh/kmip-go/ttlv"
	mc "github.com/ovh/kmip-go/zz_verif/mc"
)

// Item programs for the ID placeholder: a '|'-separated list of actions
//   S<x> set placeholder to x (x may be empty)    R read it    G GetIdOrPlaceholder("")    E GetIdOrPlaceholder("explicit") (must not touch the placeholder)
//   F fail (typed error)    P panic    T fail on the first attempt at the item only    N / NF forward another request message to an executor from inside the handler (NF: with a failing item)
// and two whole-item programs refused by the router before any handler runs: U (operation without a route), X (critical extension)
// The handler answers with the observations it made ("R=<v>;G=<v>").

var phObj mc.Obj // placeholder accesses are declared as conflicting accesses to one object (keeps the state cache from merging their orders)

func phHandler(yield bool) func(ctx context.Context, req *payloads.ActivateRequestPayload) (*payloads.ActivateResponsePayload, error) {
	return func(ctx context.Context, req *payloads.ActivateRequestPayload) (*payloads.ActivateResponsePayload, error) {
		prog := req.UniqueIdentifier
		if i := strings.Index(prog, "#"); i >= 0 {
			prog = prog[i+1:]
		}
		var obs []string
		for _, a := range strings.Split(prog, "|") {
			if a == "" {
				continue
			}
			if yield {
				mc.Yield("ph.action")
				mc.EvWrite(&phObj, "ph."+a[:1], 0)
			}
			switch a[0] {
			case 'S':
				kmipserver.SetIdPlaceholder(ctx, a[1:])
			case 'R':
				v := kmipserver.IdPlaceholder(ctx)
				obs = append(obs, "R="+v)
				if yield {
					mc.Observe(mc.HashStr(v))
				}
			case 'G':
				v, err := kmipserver.GetIdOrPlaceholder(ctx, "")
				if err != nil {
					return nil, err
				}
				obs = append(obs, "G="+v)
				if yield {
					mc.Observe(mc.HashStr(v))
				}
			case 'E':
				v, err := kmipserver.GetIdOrPlaceholder(ctx, "explicit")
				if err != nil {
					return nil, err
				}
				obs = append(obs, "E="+v)
			case 'N':
				// forward another request message (two items: [R|Sn, R], or with a failing item for "NF") to an executor, with the
				// context this handler was given: it is a request of its own, with a placeholder scope of its own
				items := phNestedItems(a)
				resp := phNested.HandleRequest(ctx, phRequest("n", items, false))
				var in []string
				for _, bi := range resp.BatchItem {
					if pl, ok := bi.ResponsePayload.(*payloads.ActivateResponsePayload); ok && bi.ResultStatus == kmip.ResultStatusSuccess {
						in = append(in, pl.UniqueIdentifier)
					} else {
						in = append(in, "!")
					}
				}
				obs = append(obs, "N="+strings.Join(in, "/"))
			case 'T':
				// transient failure: the first attempt at this item fails, later attempts (a retrying middleware) go on
				phAttempts[req.UniqueIdentifier]++
				if phAttempts[req.UniqueIdentifier] == 1 {
					return nil, kmipserver.Errorf(kmip.ResultReasonItemNotFound, "scripted transient failure")
				}
			case 'F':
				return nil, kmipserver.Errorf(kmip.ResultReasonItemNotFound, "scripted failure")
			case 'P':
				panic("scripted panic")
			}
		}
		return &payloads.ActivateResponsePayload{UniqueIdentifier: strings.Join(obs, ";")}, nil
	}
}

// phAttempts counts the attempts per item (action T); phMwMode is the batch-item middleware of the executor under test:
// "" none / pass-through, "retry" (a failed attempt is tried once more), "absorb" (a failed attempt is answered as a success).
var phAttempts = map[string]int{}
var phMwMode = ""

// phNested is the executor that the 'N' action forwards to (set by phExecutor: the executor under test itself, or a second one).
var phNested *kmipserver.BatchExecutor

func phNestedItems(action string) []string {
	if action == "NF" {
		return []string{"Sn", "F", "R"}
	}
	return []string{"R|Sn", "R"}
}

// phModel is the reference: one string per request, empty at start, cleared when an item fails.
// It returns per item the expected observation string, or "!" for a failed item, or "-" for a skipped one.
func phModel(items []string, stop bool) []string {
	ph := ""
	out := make([]string, len(items))
	stopped := false
	for i, prog := range items {
		if stopped {
			out[i] = "-"
			continue
		}
		var obs []string
		failed := prog == "U" || prog == "X"
		for _, a := range strings.Split(prog, "|") {
			if failed {
				break
			}
			if a == "" {
				continue
			}
			switch a[0] {
			case 'S':
				ph = a[1:]
			case 'R':
				obs = append(obs, "R="+ph)
			case 'G':
				if ph == "" {
					failed = true
				} else {
					obs = append(obs, "G="+ph)
				}
			case 'E':
				obs = append(obs, "E=explicit")
			case 'N':
				// a request of its own: starts empty, and nothing it does is seen by the forwarding request
				obs = append(obs, "N="+strings.Join(phModel(phNestedItems(a), false), "/"))
			case 'T':
				// fails once: with a retrying middleware the second attempt passes here (T only starts a program)
				if phMwMode != "retry" {
					failed = true
				}
			case 'F', 'P':
				failed = true
			}
			if failed {
				break
			}
		}
		if failed && phMwMode == "absorb" && prog != "U" && prog != "X" && !strings.Contains(prog, "P") {
			// the middleware answers the failed attempt as a success: the item has not failed, nothing is cleared
			out[i] = "absorbed"
			continue
		}
		if failed {
			ph = ""
			out[i] = "!"
			if stop {
				stopped = true
			}
			continue
		}
		out[i] = strings.Join(obs, ";")
	}
	return out
}

func phRequest(tag string, items []string, stop bool) *kmip.RequestMessage {
	var pls []kmip.OperationPayload
	for _, it := range items {
		if it == "U" {
			pls = append(pls, &payloads.RevokeRequestPayload{UniqueIdentifier: tag + "#U"})
			continue
		}
		pls = append(pls, &payloads.ActivateRequestPayload{UniqueIdentifier: tag + "#" + it})
	}
	msg := kmip.NewRequestMessage(kmip.V1_4, pls...)
	for i, it := range items {
		if it == "X" {
			msg.BatchItem[i].MessageExtension = &kmip.MessageExtension{VendorIdentification: "v", CriticalityIndicator: true}
		}
	}
	if stop {
		msg.Header.BatchErrorContinuationOption = kmip.BatchErrorContinuationOptionStop
	}
	return &msg
}

// phCheck compares a response with the reference; returns "" if they agree.
func phCheck(resp *kmip.ResponseMessage, items []string, stop bool) string {
	want := phModel(items, stop)
	if resp == nil || len(resp.BatchItem) != len(items) {
		return fmt.Sprintf("response has %d items for %d request items", len(resp.BatchItem), len(items))
	}
	for i, bi := range resp.BatchItem {
		switch want[i] {
		case "!", "-":
			if bi.ResultStatus != kmip.ResultStatusOperationFailed {
				return fmt.Sprintf("item %d (%q) should have failed/been skipped", i, items[i])
			}
		default:
			if bi.ResultStatus != kmip.ResultStatusSuccess {
				return fmt.Sprintf("item %d (%q) failed (%s) but the reference expects observations %q", i, items[i], bi.ResultMessage, want[i])
			}
			pl, _ := bi.ResponsePayload.(*payloads.ActivateResponsePayload)
			if pl == nil || pl.UniqueIdentifier != want[i] {
				got := "<nil>"
				if pl != nil {
					got = pl.UniqueIdentifier
				}
				return fmt.Sprintf("item %d (%q) observed %q, the reference says %q", i, items[i], got, want[i])
			}
		}
	}
	return ""
}

func phItemPrograms(maxActions int) []string {
	acts := []string{"Sa", "Sb", "S", "R", "G", "E", "F"} // "S" stores the empty identifier
	progs := []string{""}
	cur := []string{""}
	for n := 0; n < maxActions; n++ {
		var next []string
		for _, p := range cur {
			if strings.HasSuffix(p, "F") {
				continue
			}
			for _, a := range acts {
				q := a
				if p != "" {
					q = p + "|" + a
				}
				next = append(next, q)
			}
		}
		progs = append(progs, next...)
		cur = next
	}
	return append(progs, "P", "Sa|P", "U", "X")
}

// phExecutor builds the executor under test; withMW registers a pass-through message middleware and a pass-through
// batch-item middleware (the executor then takes the middleware code paths).
func phExecutor(yield, withMW bool) *kmipserver.BatchExecutor {
	exec := kmipserver.NewBatchExecutor()
	exec.Route(kmip.OperationActivate, kmipserver.HandleFunc(phHandler(yield)))
	phNested = exec
	phAttempts = map[string]int{}
	switch phMwMode {
	case "retry":
		exec.BatchItemUse(func(next kmipserver.BatchItemNext, ctx context.Context, bi *kmip.RequestBatchItem) (*kmip.ResponseBatchItem, error) {
			resp, err := next(ctx, bi)
			if err != nil {
				return next(ctx, bi)
			}
			return resp, err
		})
	case "absorb":
		exec.BatchItemUse(func(next kmipserver.BatchItemNext, ctx context.Context, bi *kmip.RequestBatchItem) (*kmip.ResponseBatchItem, error) {
			resp, err := next(ctx, bi)
			if err != nil {
				return &kmip.ResponseBatchItem{Operation: bi.Operation, UniqueBatchItemID: bi.UniqueBatchItemID, ResultStatus: kmip.ResultStatusSuccess,
					ResponsePayload: &payloads.ActivateResponsePayload{UniqueIdentifier: "absorbed"}}, nil
			}
			return resp, err
		})
	}
	if withMW {
		exec.Use(func(next kmipserver.Next, ctx context.Context, msg *kmip.RequestMessage) (*kmip.ResponseMessage, error) { return next(ctx, msg) })
		exec.BatchItemUse(func(next kmipserver.BatchItemNext, ctx context.Context, bi *kmip.RequestBatchItem) (*kmip.ResponseBatchItem, error) {
			return next(ctx, bi)
		})
	}
	return exec
}

// phSeqExhaustive: every batch of <=maxItems items over the item programs, options Continue/Stop, followed by a
// probe request [R] with the same parent context (same "connection"), all through BatchExecutor.HandleRequest.
func phSeqExhaustive(maxItems, maxActions int, withMW ...bool) func() {
	return phSeqOver(maxItems, func() []string { return phItemPrograms(maxActions) }, false, withMW...)
}

// phNestedPrograms: item programs around the forwarding action N / NF (see phHandler).
func phNestedPrograms() []string {
	return []string{"", "Sa", "R", "G", "N", "NF", "Sa|N", "N|R", "Sa|N|R", "Sa|NF|R", "N|G", "F"}
}

// phSeqMw: all batches over the given programs on an executor whose batch-item middleware retries / absorbs failed attempts.
func phSeqMw(mode string, programs []string) func() {
	inner := phSeqOver(3, func() []string { return programs }, false)
	return func() {
		phMwMode = mode
		defer func() { phMwMode = "" }()
		inner()
	}
}

func phSeqOver(maxItems int, programs func() []string, secondExecutor bool, withMW ...bool) func() {
	return func() {
		resetPackages()
		exec := phExecutor(false, len(withMW) > 0 && withMW[0])
		if secondExecutor {
			_ = phExecutor(false, false) // the forwarding target is another executor (phNested now points to it)
		}
		progs := programs()
		parent := context.WithValue(context.Background(), shutConnKey{}, "conn")
		n := 0
		var rec func(items []string)
		rec = func(items []string) {
			if len(items) > 0 {
				for _, stop := range []bool{false, true} {
					n++
					phAttempts = map[string]int{}
					resp := exec.HandleRequest(parent, phRequest("q", items, stop))
					if d := phCheck(resp, items, stop); d != "" {
						mc.Failf("placeholder-model-mismatch: batch %q stop=%v: %s", items, stop, d)
						return
					}
					// the next request on the same connection starts with an empty placeholder
					probe := exec.HandleRequest(parent, phRequest("p", []string{"R"}, false))
					if d := phCheck(probe, []string{"R"}, false); d != "" {
						mc.Failf("placeholder-leaks-to-next-request: after batch %q: %s", items, d)
						return
					}
				}
			}
			if len(items) == maxItems {
				return
			}
			for _, p := range progs {
				rec(append(append([]string{}, items...), p))
			}
		}
		rec(nil)
		mc.Note("sequences", fmt.Sprint(n))
	}
}

// phConcurrent: k requests (each a fixed batch) run concurrently through one executor; handlers yield before every action.
// prelude: a request processed (sequentially) before the concurrent ones start: "" none, "undo" / "count" / "version"
// (rejected as a whole), "faileditem" (an item fails), "panic" (an item panics), "ok" (a plain successful request).
func phPrelude(exec *kmipserver.BatchExecutor, parent context.Context, kind string) {
	var req *kmip.RequestMessage
	switch kind {
	case "":
		return
	case "undo":
		req = phRequest("pre", []string{"Sz"}, false)
		req.Header.BatchErrorContinuationOption = kmip.BatchErrorContinuationOptionUndo
	case "count":
		req = phRequest("pre", []string{"Sz"}, false)
		req.Header.BatchCount = 5
	case "version":
		req = phRequest("pre", []string{"Sz"}, false)
		req.Header.ProtocolVersion = kmip.ProtocolVersion{ProtocolVersionMajor: 9, ProtocolVersionMinor: 9}
	case "faileditem":
		req = phRequest("pre", []string{"Sz", "F"}, false)
	case "panic":
		req = phRequest("pre", []string{"Sz", "P"}, false)
	case "ok":
		req = phRequest("pre", []string{"Sz", "R"}, false)
	}
	_ = exec.HandleRequest(parent, req)
}

func phConcurrent(batches [][]string, prelude ...string) func() {
	return func() {
		resetPackages()
		mw, mw3 := false, false
		var pre []string
		for _, p := range prelude {
			if p == "+mw" {
				mw = true
			} else if p == "+mw3" {
				mw3 = true
			} else {
				pre = append(pre, p)
			}
		}
		exec := phExecutor(true, mw)
		if mw3 {
			// three message middlewares and three batch-item middlewares registered by separate calls (the executor's slices
			// then have spare capacity), each yielding so that two requests can overlap inside the chain
			for i := 0; i < 3; i++ {
				exec.Use(func(next kmipserver.Next, ctx context.Context, msg *kmip.RequestMessage) (*kmip.ResponseMessage, error) {
					mc.Yield("ph.mw")
					return next(ctx, msg)
				})
				exec.BatchItemUse(func(next kmipserver.BatchItemNext, ctx context.Context, bi *kmip.RequestBatchItem) (*kmip.ResponseBatchItem, error) {
					mc.Yield("ph.imw")
					return next(ctx, bi)
				})
			}
		}
		parent := context.WithValue(context.Background(), shutConnKey{}, "conn")
		for _, p := range pre {
			phPrelude(exec, parent, p)
		}
		done := make([]*mc.Var[bool], len(batches))
		for i, b := range batches {
			i, b := i, b
			done[i] = &mc.Var[bool]{}
			mc.GoNamed(fmt.Sprintf("req%d", i), func() {
				resp := exec.HandleRequest(parent, phRequest(fmt.Sprint("t", i), b, false))
				if d := phCheck(resp, b, false); d != "" {
					mc.Failf("placeholder-visible-across-requests: request %d %q: %s", i, b, d)
				}
				done[i].Store(true)
			})
		}
		for _, d := range done {
			d.Await(true)
		}
	}
}

// phServer: the same through real server connections: conns[i] is a list of requests (batches) sent sequentially on connection i.
func phServer(conns [][][]string) func() {
	return func() {
		resetPackages()
		lis := &Listener{}
		exec := kmipserver.NewBatchExecutor()
		exec.Route(kmip.OperationActivate, kmipserver.HandleFunc(phHandler(true)))
		srv := kmipserver.NewServer(lis, exec)
		var serveRet mc.Var[int]
		mc.GoNamed("serve", func() {
			if err := srv.Serve(); errors.Is(err, kmipserver.ErrShutdown) {
				serveRet.Store(1)
			} else {
				serveRet.Store(2)
			}
		})
		done := make([]*mc.Var[bool], len(conns))
		for i, reqs := range conns {
			i, reqs := i, reqs
			done[i] = &mc.Var[bool]{}
			mc.GoNamed(fmt.Sprintf("client%d", i), func() {
				defer done[i].Store(true)
				c := lis.Dial(fmt.Sprintf("c%d", i))
				if c == nil {
					return
				}
				defer c.Close()
				for j, b := range reqs {
					_, _ = c.Write(ttlv.MarshalTTLV(phRequest(fmt.Sprintf("c%dr%d", i, j), b, false)))
					fr, err := c.RecvFrame()
					if err != nil {
						mc.Failf("missing-response: connection %d request %d: %v", i, j, err)
						return
					}
					var resp kmip.ResponseMessage
					if err := ttlv.UnmarshalTTLV(fr, &resp); err != nil {
						mc.Failf("undecodable-response: %v", err)
						return
					}
					if d := phCheck(&resp, b, false); d != "" {
						mc.Failf("placeholder-visible-across-requests: connection %d request %d %q: %s", i, j, b, d)
						return
					}
				}
			})
		}
		for _, d := range done {
			d.Await(true)
		}
		_ = srv.Shutdown()
		serveRet.Await(1)
	}
}

func init() {
	register("ph-seq-exhaustive-q", func() *Scenario {
		return &Scenario{Name: "ph-seq-exhaustive-q", Doc: "all batches of <=2 items x <=2 actions (+panic items), Continue/Stop, each followed by a probe request on the same connection context", Body: phSeqExhaustive(2, 2), MaxSteps: 200000000}
	})
	register("ph-seq-exhaustive-t", func() *Scenario {
		return &Scenario{Name: "ph-seq-exhaustive-t", Doc: "all batches of <=3 items x <=2 actions (+panic items), Continue/Stop, each followed by a probe request", Body: phSeqExhaustive(3, 2), MaxSteps: 200000000}
	})
	register("ph-seq-retry", func() *Scenario {
		return &Scenario{Name: "ph-seq-retry", Doc: "all batches of <=3 items on an executor whose batch-item middleware tries a failed attempt once more; programs with a transient failure (T: first attempt only): an item that succeeds in the end has not failed, the placeholder stays", Body: phSeqMw("retry", []string{"", "Sa", "R", "G", "T", "T|R", "T|G", "T|Sb", "F", "Sb|F"}), MaxSteps: 200000000}
	})
	register("ph-seq-absorb", func() *Scenario {
		return &Scenario{Name: "ph-seq-absorb", Doc: "all batches of <=3 items on an executor whose batch-item middleware answers a failed attempt as a success (idempotent operations): nothing is cleared", Body: phSeqMw("absorb", []string{"", "Sa", "R", "G", "F", "Sb|F", "G|F"}), MaxSteps: 200000000}
	})
	register("ph-seq-nested", func() *Scenario {
		return &Scenario{Name: "ph-seq-nested", Doc: "all batches of <=3 items over programs in which a handler forwards another request message (2-3 items) to the same executor with its own context: the forwarded request has a placeholder scope of its own", Body: phSeqOver(3, phNestedPrograms, false), MaxSteps: 200000000}
	})
	register("ph-seq-nested-2exec", func() *Scenario {
		return &Scenario{Name: "ph-seq-nested-2exec", Doc: "as ph-seq-nested, forwarding to a second executor, the first one having pass-through middlewares", Body: phSeqOver(3, phNestedPrograms, true, true), MaxSteps: 200000000}
	})
	register("ph-seq-exhaustive-mw", func() *Scenario {
		return &Scenario{Name: "ph-seq-exhaustive-mw", Doc: "as ph-seq-exhaustive-t on an executor with a pass-through message middleware and batch-item middleware", Body: phSeqExhaustive(3, 2, true), MaxSteps: 200000000}
	})
	register("ph-conc-2-mw", func() *Scenario {
		return &Scenario{Name: "ph-conc-2-mw", Doc: "two concurrent requests on an executor with pass-through middlewares, after one plain request", Body: phConcurrent([][]string{{"Sa", "R|G"}, {"R", "Sb|R"}}, "+mw", "ok")}
	})
	register("ph-conc-2-mw3", func() *Scenario {
		return &Scenario{Name: "ph-conc-2-mw3", Doc: "two concurrent requests on an executor whose three message and three batch-item middlewares were registered one call at a time", Body: phConcurrent([][]string{{"Sa", "R|G"}, {"R", "Sb|R"}}, "+mw3")}
	})
	register("ph-seq-exhaustive-x", func() *Scenario {
		return &Scenario{Name: "ph-seq-exhaustive-x", Doc: "all batches of <=4 items x <=2 actions (+panic items), Continue/Stop, each followed by a probe request", Body: phSeqExhaustive(4, 2), MaxSteps: 200000000}
	})
	conc := func(name, doc string, b [][]string) {
		register(name, func() *Scenario { return &Scenario{Name: name, Doc: doc, Body: phConcurrent(b)} })
	}
	conc("ph-conc-2", "two concurrent requests: [Sa, R|G] and [R, Sb|R]", [][]string{{"Sa", "R|G"}, {"R", "Sb|R"}})
	conc("ph-conc-2-fail", "two concurrent requests: [Sa, F, R] and [Sb, R, R]", [][]string{{"Sa", "F", "R"}, {"Sb", "R", "R"}})
	for _, pre := range []string{"undo", "count", "version", "faileditem", "panic", "ok"} {
		pre := pre
		name := "ph-conc-2-after-" + pre
		register(name, func() *Scenario {
			return &Scenario{Name: name, Doc: "a request of kind '" + pre + "' is processed first, then two concurrent requests [Sa, R|G] and [R, Sb|R]", Body: phConcurrent([][]string{{"Sa", "R|G"}, {"R", "Sb|R"}}, pre)}
		})
	}
	register("ph-conc-2-after-undo-undo", func() *Scenario {
		return &Scenario{Name: "ph-conc-2-after-undo-undo", Doc: "two rejected requests, then two concurrent requests", Body: phConcurrent([][]string{{"Sa", "R|G"}, {"R", "Sb|R"}}, "undo", "count")}
	})
	conc("ph-conc-3", "three concurrent requests: [Sa,R] [Sb,R] [R,R]", [][]string{{"Sa", "R"}, {"Sb", "R"}, {"R", "R"}})
	srvs := func(name, doc string, c [][][]string) {
		register(name, func() *Scenario { return &Scenario{Name: name, Doc: doc, Body: phServer(c)} })
	}
	srvs("ph-srv-seq", "one connection, two consecutive requests: [Sa, R] then [R]", [][][]string{{{"Sa", "R"}, {"R"}}})
	srvs("ph-srv-2conn", "two connections concurrently: [Sa, R] and [R, Sb|R]", [][][]string{{{"Sa", "R"}}, {{"R", "Sb|R"}}})
}
