//go:build verifmc && verifmc_all

package scen

import (
	"github.com/ovh/kmip-go/kmipclient"
	"github.com/ovh/kmip-go/kmipserver"
	"github.com/ovh/kmip-go/ttlv"
)

// resetPackages: the codec package is instrumented too in this build (its per-type plan caches are scheduling points and
// start cold in every execution).
func resetPackages() {
	ttlv.ZZVerifReset()
	kmipserver.ZZVerifReset()
	kmipclient.ZZVerifReset()
}
