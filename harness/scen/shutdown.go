//go:build verifmc

package scen

import (
	"context"
	"errors"
	"fmt"
	"strings"

	"github.com/ovh/kmip-go"
	"github.com/ovh/kmip-go/kmipserver"
	"github.com/ovh/kmip-go/payloads"
	"github.com/ovh/kmip-go/ttlv"
	mc "github.com/ovh/kmip-go/zz_verif/mc"
)

// ShutCfg: one server, connections each brought to a phase, and a Shutdown thread that may run at any time.
type ShutCfg struct {
	Hook    string   // "", "ok", "fail"
	Phases  []string // per connection: idle | half | fast | slow | nowrite-smallpipe | late
	PipeCap int
	ShutAt  string // "" = from the start; "written" = after every client has written what it writes
	Shutters int   // number of threads calling Shutdown concurrently (0 = 1)
	CloseErr bool  // the listener's Close reports an error (it is closed all the same)
	SameAddr bool  // all connections report the same remote address (unix socket, in-memory listener)
}

type shutWorld struct {
	cfg          ShutCfg
	lis          *Listener
	active       mc.Counter
	shutReturned mc.Var[bool]
	clientGone   []*mc.Var[bool]
	connects     mc.Counter
	connectOK    mc.Counter
	terms        mc.Counter
	handlerSeen  []*mc.Counter
	termWhileActive bool
	gate         *mc.Chan[struct{}]
}

type shutConnKey struct{}

func (w *shutWorld) handler(ctx context.Context, req *payloads.ActivateRequestPayload) (*payloads.ActivateResponsePayload, error) {
	if w.shutReturned.Load() {
		mc.Failf("handler-started-after-shutdown: handler for %s started after Shutdown had returned", req.UniqueIdentifier)
	}
	w.active.Add(1)
	w.handlerSeen[int(req.UniqueIdentifier[len(req.UniqueIdentifier)-1]-'0')].Add(1)
	defer w.active.Add(-1)
	if strings.HasPrefix(req.UniqueIdentifier, "stub") {
		// a handler that ignores its context: it only ends when the gate opens (a separate thread opens it at any time)
		mc.Select(false, mc.RecvCase(w.gate))
	}
	if strings.HasPrefix(req.UniqueIdentifier, "slow") {
		// runs until the gate opens (never, here) or its context is cancelled
		switch mc.Select(false, mc.DoneCase(ctx.Done()), mc.RecvCase(w.gate)) {
		case 0:
			idx := int(req.UniqueIdentifier[len(req.UniqueIdentifier)-1] - '0')
			if mc.TimersFired() == 0 && !w.clientGone[idx].Load() {
				mc.Failf("cancelled-before-grace-period: handler of %s cancelled although the grace timer had not fired and the client was still connected", req.UniqueIdentifier)
			}
		}
	}
	return &payloads.ActivateResponsePayload{UniqueIdentifier: req.UniqueIdentifier}, nil
}

func (w *shutWorld) client(i int, phase string) {
	name := fmt.Sprintf("c%d", i)
	c := w.lis.Dial(name)
	if c == nil {
		w.clientGone[i].Store(true)
		return // listener already closed: connection refused
	}
	id := fmt.Sprintf("%s%d", map[string]string{"fast": "ok", "slow": "slow", "nowrite-smallpipe": "ok", "late": "ok", "stubborn": "stub"}[phase], i)
	switch phase {
	case "idle":
	case "half":
		b := reqBytes("ok" + fmt.Sprint(i))
		_, _ = c.Write(b[:len(b)/2])
	case "pipelined":
		// two requests in one write: the first one's handler runs until cancelled, the second one is read by the connection's
		// read loop while the first is still being handled
		_, _ = c.Write(append(reqBytes(fmt.Sprintf("slow%d", i)), reqBytes(fmt.Sprintf("ok%d", i))...))
		n := 0
		for {
			fr, err := c.RecvFrame()
			if err != nil {
				break
			}
			var resp kmip.ResponseMessage
			want := []string{fmt.Sprintf("slow%d", i), fmt.Sprintf("ok%d", i)}
			if err := ttlv.UnmarshalTTLV(fr, &resp); err != nil || len(resp.BatchItem) != 1 || n >= 2 || string(resp.BatchItem[0].UniqueBatchItemID) != want[n] {
				mc.Failf("bad-response: connection %d got an unexpected response (number %d)", i, n)
			}
			n++
		}
		w.clientGone[i].Store(true)
		_ = c.Close()
		return
	case "fast", "slow", "late", "stubborn":
		_, _ = c.Write(reqBytes(id))
	case "nowrite-smallpipe":
		_, _ = c.Write(reqBytes(id))
		// never reads: the response stays stuck in the 16-byte pipe until the server gives up
		mc.Block(name+".waitEOFsmall", func() bool { return c.in.closed })
		w.clientGone[i].Store(true)
		_ = c.Close()
		return
	}
	// read whatever the server sends until it closes the connection
	got := 0
	for {
		fr, err := c.RecvFrame()
		if err != nil {
			break
		}
		var resp kmip.ResponseMessage
		if err := ttlv.UnmarshalTTLV(fr, &resp); err != nil || len(resp.BatchItem) != 1 || string(resp.BatchItem[0].UniqueBatchItemID) != id {
			mc.Failf("bad-response: connection %d got an unexpected response", i)
		}
		got++
	}
	if got > 1 {
		mc.Failf("extra-response: connection %d got %d responses to one request", i, got)
	}
	if (phase == "fast" || phase == "late") && got == 0 && w.handlerSeen[i].Peek() > 0 && mc.TimersFired() == 0 {
		// the request was handled to completion (fast handler) but never answered although nothing forced the server to give up
		mc.Failf("unanswered-request: connection %d: handler ran but no response was delivered and the grace timer never fired", i)
	}
	w.clientGone[i].Store(true)
	_ = c.Close()
}

func shutdownScenario(cfg ShutCfg) func() {
	return func() {
		resetPackages()
		w := &shutWorld{cfg: cfg, lis: &Listener{Cap: cfg.PipeCap}, gate: mc.MakeChan[struct{}](0)}
		w.lis.SameAddr = cfg.SameAddr
		if cfg.CloseErr {
			w.lis.CloseErr = errors.New("close: cannot remove the socket")
		}
		exec := kmipserver.NewBatchExecutor()
		exec.Route(kmip.OperationActivate, kmipserver.HandleFunc(w.handler))
		srv := kmipserver.NewServer(w.lis, exec)
		if cfg.Hook != "" {
			srv = srv.WithConnectHook(func(ctx context.Context) (context.Context, error) {
				w.connects.Add(1)
				if cfg.Hook == "fail" {
					return nil, errors.New("connect hook refuses")
				}
				w.connectOK.Add(1)
				return context.WithValue(ctx, shutConnKey{}, "hooked"), nil
			}).WithTerminateHook(func(ctx context.Context) {
				if ctx == nil || ctx.Value(shutConnKey{}) != "hooked" {
					mc.Failf("terminate-hook-wrong-context: terminate hook did not receive the context returned by the connect hook")
				}
				if w.active.Load() != 0 && len(cfg.Phases) == 1 {
					mc.Failf("terminate-hook-before-handler-end: terminate hook ran while a handler of the connection was still running")
				}
				w.terms.Add(1)
			})
		}
		var serveRet mc.Var[int]
		mc.GoNamed("serve", func() {
			err := srv.Serve()
			if errors.Is(err, kmipserver.ErrShutdown) {
				serveRet.Store(1)
			} else {
				serveRet.Store(2)
			}
		})
		written := make([]*mc.Var[bool], len(cfg.Phases))
		for i, ph := range cfg.Phases {
			i, ph := i, ph
			w.clientGone = append(w.clientGone, &mc.Var[bool]{})
			w.handlerSeen = append(w.handlerSeen, &mc.Counter{})
			written[i] = &mc.Var[bool]{}
			mc.GoNamed(fmt.Sprintf("client%d", i), func() {
				if ph == "late" {
					written[i].Store(true) // lets Shutdown start before this client even dials
				}
				w.client(i, ph)
			})
			_ = written
		}
		for _, ph := range cfg.Phases {
			if ph == "stubborn" {
				mc.GoNamed("gate", func() { mc.Close(w.gate) })
				break
			}
		}
		nShut := cfg.Shutters
		if nShut == 0 {
			nShut = 1
		}
		var shutDone mc.Counter
		for si := 0; si < nShut; si++ {
			name := "shut"
			if si > 0 {
				name = fmt.Sprintf("shut%d", si+1)
			}
			mc.GoNamed(name, func() {
				if cfg.ShutAt == "late" {
					for _, v := range written {
						v.Await(true)
					}
				}
				_ = srv.Shutdown()
				// every call of Shutdown, also one that overlaps another, returns only once the server is drained
				if !w.lis.IsClosed() {
					mc.Failf("listener-open: listener still open after Shutdown returned")
				}
				if n := w.active.Load(); n != 0 {
					mc.Failf("handler-running-at-return: %d handler(s) still running when Shutdown returned", n)
				}
				w.shutReturned.Store(true)
				shutDone.Add(1)
			})
		}
		// end-of-execution checks run in main once everything else is quiescent
		w.shutReturned.Await(true)
		shutDone.Await(nShut)
		serveRet.Await(1)
		for _, g := range w.clientGone {
			g.Await(true)
		}
		mc.Yield("settle")
		mc.Note("hook", fmt.Sprintf("connects=%d ok=%d terms=%d", w.connects.Peek(), w.connectOK.Peek(), w.terms.Peek()))
	}
}

// shutOracle adds the end-state pairing check of connect / terminate hooks to the default oracle.
func shutOracle(cfg ShutCfg) mc.Oracle {
	return func(x *mc.Exec) ([]mc.Finding, string) {
		fs, out := mc.DefaultOracle(x)
		if h, ok := x.Notes["hook"]; ok && cfg.Hook != "" && !x.WasCut && !x.Truncated && len(x.Blocked) == 0 {
			var c, okc, t int
			fmt.Sscanf(h, "connects=%d ok=%d terms=%d", &c, &okc, &t)
			if t != okc {
				fs = append(fs, mc.Finding{Sig: "fail:hook-pairing", Desc: fmt.Sprintf("connect hook succeeded %d time(s) but terminate hook ran %d time(s)", okc, t)})
				out += ";fail:hook-pairing"
			}
		}
		return fs, out
	}
}

func init() {
	sd := func(name, doc string, cfg ShutCfg) {
		register(name, func() *Scenario { return &Scenario{Name: name, Doc: doc, Body: shutdownScenario(cfg), Oracle: shutOracle(cfg)} })
	}
	sd("shut-idle", "Shutdown at any time vs a connection that connects and stays idle", ShutCfg{Hook: "ok", Phases: []string{"idle"}})
	sd("shut-half", "Shutdown at any time vs a connection that sent half a request", ShutCfg{Hook: "ok", Phases: []string{"half"}})
	sd("shut-fast", "Shutdown at any time vs a connection sending one request with a fast handler", ShutCfg{Hook: "ok", Phases: []string{"fast"}})
	sd("shut-slow", "Shutdown at any time vs a request whose handler runs until cancelled (outlasts the grace period)", ShutCfg{Hook: "ok", Phases: []string{"slow"}})
	sd("shut-smallpipe", "Shutdown at any time vs a response stuck in a 16-byte pipe nobody reads", ShutCfg{Hook: "ok", PipeCap: 16, Phases: []string{"nowrite-smallpipe"}})
	sd("shut-hookfail", "Shutdown at any time vs a connection whose connect hook fails", ShutCfg{Hook: "fail", Phases: []string{"fast"}})
	sd("shut-late", "Shutdown starts first, a client connects and sends a request while it runs (late accept)", ShutCfg{Hook: "ok", ShutAt: "late", Phases: []string{"late"}})
	sd("shut-twice-slow", "two threads call Shutdown concurrently while a handler runs until cancelled: each call returns only once the server is drained", ShutCfg{Hook: "ok", Shutters: 2, Phases: []string{"slow"}})
	sd("shut-twice-fast", "two threads call Shutdown concurrently vs a connection with a fast handler", ShutCfg{Hook: "ok", Shutters: 2, Phases: []string{"fast"}})
	sd("shut-closeerr-slow", "the listener's Close reports an error; a handler runs until cancelled", ShutCfg{Hook: "ok", CloseErr: true, Phases: []string{"slow"}})
	sd("shut-closeerr-fast", "the listener's Close reports an error; fast handler", ShutCfg{Hook: "ok", CloseErr: true, Phases: []string{"fast"}})
	sd("shut-pipelined", "Shutdown at any time vs a connection that pipelined two requests: the first handler runs until cancelled while the second request is already read", ShutCfg{Hook: "ok", Phases: []string{"pipelined"}})
	sd("shut-stubborn", "Shutdown at any time vs a handler that ignores cancellation and ends only when an external gate opens (at any time): Shutdown returns only after it has ended", ShutCfg{Hook: "ok", Phases: []string{"stubborn"}})
	sd("shut-2conn", "Shutdown at any time vs two connections (fast handler, slow handler)", ShutCfg{Hook: "ok", Phases: []string{"fast", "slow"}})
	sd("shut-2conn-sameaddr", "Shutdown at any time vs two connections (fast handler, idle) that report the same remote address, as the clients of a unix socket do; hooks installed", ShutCfg{Hook: "ok", SameAddr: true, Phases: []string{"fast", "idle"}})
	sd("shut-2conn-idle-fast", "Shutdown at any time vs two connections (idle, fast)", ShutCfg{Phases: []string{"idle", "fast"}})
}
