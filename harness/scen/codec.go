//go:build verifmc && verifmc_codec

package scen

import (
	"encoding/json"
	"fmt"
	"os"
	"strings"
	"time"

	"github.com/ovh/kmip-go"
	"github.com/ovh/kmip-go/payloads"
	"github.com/ovh/kmip-go/ttlv"
	mc "github.com/ovh/kmip-go/zz_verif/mc"
	"verifharness/codecops"
	"verifharness/msg"
)


var codecRefs map[string]string

// codecPrepare loads the reference result of every operation. The references come from fresh child
// processes (one per operation, see vmc "codec-ref"), handed over in the file named by VERIF_CODEC_REFS;
// without that file they are computed here, each from cold caches.
func codecPrepare() {
	if codecRefs != nil {
		return
	}
	ttlv.ZZVerifReset()
	codecops.In = codecops.BuildInputs()
	if p := os.Getenv("VERIF_CODEC_REFS"); p != "" {
		b, err := os.ReadFile(p)
		if err == nil {
			m := map[string]string{}
			if json.Unmarshal(b, &m) == nil && len(m) == len(codecops.Ops) {
				codecRefs = m
				return
			}
		}
	}
	refs := map[string]string{}
	for name, op := range codecops.Ops {
		ttlv.ZZVerifReset()
		refs[name] = op()
	}
	codecRefs = refs
}

// CodecRef runs one operation alone in this (fresh) process and returns its result.
func CodecRef(name string) string {
	var out string
	x := mc.Run(nil, 1000000, false, func() {
		codecops.In = codecops.BuildInputs()
		ttlv.ZZVerifReset()
		out = codecops.Ops[name]()
	}, nil)
	if len(x.Panics) > 0 || len(x.Fatal) > 0 {
		return fmt.Sprint("panic:", x.Panics, x.Fatal)
	}
	return out
}

// codecHistories: every sequence of <= n operations, each sequence from cold caches, every result compared with the reference.
func codecHistories(n int) func() {
	if codecRefs == nil {
		x := mc.Run(nil, 1000000, false, codecPrepare, nil)
		if len(x.Panics) > 0 || len(x.Fatal) > 0 {
			panic(fmt.Sprint("codec prepare failed: ", x.Panics, x.Fatal))
		}
	}
	return func() {
		names := codecops.Names()
		count := 0
		var rec func(seq []string)
		rec = func(seq []string) {
			if len(seq) > 0 {
				count++
				ttlv.ZZVerifReset()
				for i, name := range seq {
					var got string
					func() {
						defer func() {
							if r := recover(); r != nil {
								got = fmt.Sprint("panic:", r)
							}
						}()
						got = codecops.Ops[name]()
					}()
					if got != codecRefs[name] {
						mc.Failf("codec-result-depends-on-history: %s as step %d of history %v gives %s, alone in a fresh process it gives %s", name, i+1, seq, short(got), short(codecRefs[name]))
						return
					}
				}
			}
			if len(seq) == n {
				return
			}
			for _, nm := range names {
				rec(append(append([]string{}, seq...), nm))
			}
		}
		rec(nil)
		mc.Note("sequences", fmt.Sprint(count))
	}
}

type pairEnc struct {
	name    string
	newEnc  func() ttlv.Encoder
	marshal func(any) []byte
}

var pairEncs = map[string]pairEnc{
	"ttlv": {"ttlv", ttlv.NewTTLVEncoder, ttlv.MarshalTTLV},
	"xml":  {"xml", ttlv.NewXMLEncoder, ttlv.MarshalXML},
	"json": {"json", ttlv.NewJSONEncoder, ttlv.MarshalJSON},
	"text": {"text", func() ttlv.Encoder { return ttlv.NewTextEncoder() }, func(v any) []byte { return ttlv.MarshalText(v) }},
}

// codecPairs: the rich baseline request and response of every operation at the given versions form the alphabet; for
// every ordered pair (A, B): (1) one encoder encodes A, is cleared and encodes B: both results must equal the result of
// a fresh encoder from cold caches; (2) from cold caches, Marshal(A) then Marshal(B): B's result must equal B alone, and
// the bytes returned for A must still be A's encoding after B was encoded.
func codecPairs(encName string, versions []kmip.ProtocolVersion) func() {
	return func() {
		e := pairEncs[encName]
		var ms []any
		var names []string
		for _, op := range msg.Operations() {
			for _, v := range versions {
				ms = append(ms, msg.BaselineRequest(op, v), msg.BaselineResponse(op, v))
				n := fmt.Sprintf("%s@%d.%d", ttlv.EnumStr(op), v.ProtocolVersionMajor, v.ProtocolVersionMinor)
				names = append(names, n+" request", n+" response")
			}
		}
		// two large messages (above the sizes an encoder buffer starts with / has grown to after small messages)
		for _, n := range []int{9000, 40000} {
			key := make([]byte, n)
			for k := range key {
				key[k] = byte(k*5 + 3)
			}
			ms = append(ms, &kmip.ResponseMessage{Header: kmip.ResponseHeader{ProtocolVersion: kmip.V1_4, BatchCount: 1},
				BatchItem: []kmip.ResponseBatchItem{{Operation: kmip.OperationGet, ResponsePayload: &payloads.GetResponsePayload{ObjectType: kmip.ObjectTypeSecretData, UniqueIdentifier: "big",
					Object: &kmip.SecretData{SecretDataType: kmip.SecretDataTypePassword, KeyBlock: kmip.KeyBlock{KeyFormatType: kmip.KeyFormatTypeOpaque, KeyValue: &kmip.KeyValue{Plain: &kmip.PlainKeyValue{KeyMaterial: kmip.KeyMaterial{Bytes: &key}}}}}}}}})
			names = append(names, fmt.Sprintf("Get response with %d bytes of material", n))
		}
		refs := make([]string, len(ms))
		for i, m := range ms {
			ttlv.ZZVerifReset()
			refs[i] = string(e.marshal(m))
		}
		pairs := 0
		for i := range ms {
			for j := range ms {
				pairs++
				enc := e.newEnc()
				enc.Any(ms[i])
				if got := string(enc.Bytes()); got != refs[i] {
					mc.Failf("codec-result-depends-on-history: %s encoder, %s on a fresh encoder differs from the result from cold caches", e.name, names[i])
					return
				}
				enc.Clear()
				enc.Any(ms[j])
				if got := string(enc.Bytes()); got != refs[j] {
					mc.Failf("codec-result-depends-on-history: %s encoder reused after Clear: %s encoded after %s gives %s, a fresh encoder gives %s", e.name, names[j], names[i], short(showDoc(got)), short(showDoc(refs[j])))
					return
				}
				ttlv.ZZVerifReset()
				a := e.marshal(ms[i])
				b := e.marshal(ms[j])
				if string(b) != refs[j] {
					mc.Failf("codec-result-depends-on-history: Marshal(%s) right after Marshal(%s) from cold caches gives %s (%s), alone it gives %s", names[j], names[i], short(showDoc(string(b))), e.name, short(showDoc(refs[j])))
					return
				}
				if string(a) != refs[i] {
					mc.Failf("codec-result-depends-on-history: the bytes returned by Marshal(%s) (%s) changed when %s was encoded afterwards", names[i], e.name, names[j])
					return
				}
			}
		}
		// encodings that fail half-way: the encoder panics inside a nested structure (negative interval, a Go value of an
		// unsupported type in an attribute); the caller recovers, clears the encoder and goes on - the next result must not
		// show that anything happened before
		neg := -time.Second
		poisons := []any{
			&kmip.ResponseMessage{Header: kmip.ResponseHeader{ProtocolVersion: kmip.V1_4, BatchCount: 1}, BatchItem: []kmip.ResponseBatchItem{{Operation: kmip.OperationObtainLease,
				ResponsePayload: &payloads.ObtainLeaseResponsePayload{UniqueIdentifier: "x", LeaseTime: -time.Second}}}},
			&kmip.RequestMessage{Header: kmip.RequestHeader{ProtocolVersion: kmip.V1_4, BatchCount: 1}, BatchItem: []kmip.RequestBatchItem{{Operation: kmip.OperationReKey,
				RequestPayload: &payloads.RekeyRequestPayload{UniqueIdentifier: "x", Offset: &neg}}}},
			&kmip.RequestMessage{Header: kmip.RequestHeader{ProtocolVersion: kmip.V1_4, BatchCount: 1}, BatchItem: []kmip.RequestBatchItem{{Operation: kmip.OperationAddAttribute,
				RequestPayload: &payloads.AddAttributeRequestPayload{UniqueIdentifier: "x", Attribute: kmip.Attribute{AttributeName: "x-bad", AttributeValue: make(chan int)}}}}},
			// failures before anything has been written: at the very first item, and after one / two structure openings but before any leaf
			ttlv.Value{Tag: kmip.TagLeaseTime, Value: neg},
			ttlv.Value{Tag: kmip.TagResponsePayload, Value: ttlv.Struct{{Tag: kmip.TagLeaseTime, Value: neg}, {Tag: kmip.TagUniqueIdentifier, Value: "x"}}},
			ttlv.Value{Tag: kmip.TagBatchItem, Value: ttlv.Struct{{Tag: kmip.TagResponsePayload, Value: ttlv.Struct{{Tag: kmip.TagLeaseTime, Value: neg}}}}},
			// ... and right after the first leaf
			ttlv.Value{Tag: kmip.TagResponsePayload, Value: ttlv.Struct{{Tag: kmip.TagUniqueIdentifier, Value: "x"}, {Tag: kmip.TagLeaseTime, Value: neg}}},
		}
		failed := 0
		for pi, p := range poisons {
			for j := range ms {
				enc := e.newEnc()
				panicked := false
				func() {
					defer func() {
						if recover() != nil {
							panicked = true
						}
					}()
					enc.Any(p)
				}()
				if panicked {
					failed++
				}
				// the same through the package-level helper: Marshal(poison) panics and is recovered, then Marshal(B)
				func() {
					defer func() { _ = recover() }()
					_ = e.marshal(p)
				}()
				if got := string(e.marshal(ms[j])); got != refs[j] {
					mc.Failf("codec-result-depends-on-history: Marshal(%s) (%s) right after a Marshal call that failed half-way (poison %d) gives %s, alone it gives %s", names[j], e.name, pi, short(showDoc(got)), short(showDoc(refs[j])))
					return
				}
				enc.Clear()
				enc.Any(ms[j])
				if got := string(enc.Bytes()); got != refs[j] {
					mc.Failf("codec-result-depends-on-history: %s encoder reused after an encoding that failed half-way (poison %d, panicked=%v) and Clear: %s gives %s, a fresh encoder gives %s", e.name, pi, panicked, names[j], short(showDoc(got)), short(showDoc(refs[j])))
					return
				}
			}
		}
		// an encoder cleared before its first use, and cleared twice
		for j := range ms {
			enc := e.newEnc()
			enc.Clear()
			enc.Any(ms[j])
			if got := string(enc.Bytes()); got != refs[j] {
				mc.Failf("codec-result-depends-on-history: %s encoder cleared before its first use: %s gives %s, a fresh encoder gives %s", e.name, names[j], short(showDoc(got)), short(showDoc(refs[j])))
				return
			}
			enc.Clear()
			enc.Clear()
			enc.Any(ms[j])
			if got := string(enc.Bytes()); got != refs[j] {
				mc.Failf("codec-result-depends-on-history: %s encoder cleared twice: %s gives %s, a fresh encoder gives %s", e.name, names[j], short(showDoc(got)), short(showDoc(refs[j])))
				return
			}
		}
		mc.Note("pairs", fmt.Sprint(pairs))
		mc.Note("failed-encodings", fmt.Sprint(failed))
	}
}

func showDoc(s string) string {
	for i := 0; i < len(s); i++ {
		if s[i] < 9 || s[i] > 126 {
			return fmt.Sprintf("%x", s)
		}
	}
	return s
}

func codecScenario(threads [][]string) func() {
	// inputs and references are computed once per process in a preliminary execution of their own
	if codecRefs == nil {
		x := mc.Run(nil, 1000000, false, codecPrepare, nil)
		if len(x.Panics) > 0 || len(x.Fatal) > 0 {
			panic(fmt.Sprint("codec prepare failed: ", x.Panics, x.Fatal))
		}
	}
	return func() {
		ttlv.ZZVerifReset()
		done := make([]*mc.Var[bool], len(threads))
		for i, ops := range threads {
			i, ops := i, ops
			done[i] = &mc.Var[bool]{}
			mc.GoNamed(fmt.Sprintf("codec%d", i), func() {
				for _, name := range ops {
					var got string
					func() {
						defer func() {
							if r := recover(); r != nil {
								got = fmt.Sprint("panic:", r)
							}
						}()
						got = codecops.Ops[name]()
					}()
					mc.Observe(mc.HashStr(got))
					if got != codecRefs[name] {
						mc.Failf("codec-result-differs: %s under concurrency gives %s, alone it gives %s", name, short(got), short(codecRefs[name]))
					}
				}
				done[i].Store(true)
			})
		}
		for _, d := range done {
			d.Await(true)
		}
	}
}

func short(s string) string {
	if len(s) > 160 {
		return s[:160] + "…"
	}
	return s
}

func init() {
	cs := func(threads ...[]string) {
		var parts []string
		for _, t := range threads {
			parts = append(parts, strings.Join(t, "+"))
		}
		name := "codec:" + strings.Join(parts, "||")
		register(name, func() *Scenario {
			return &Scenario{Name: name, Doc: "threads marshal/unmarshal concurrently from cold plan caches: " + name, Body: codecScenario(threads)}
		})
	}
	register("codec-hist-2", func() *Scenario {
		return &Scenario{Name: "codec-hist-2", Doc: "all histories of <=2 codec operations from cold caches", Body: codecHistories(2), MaxSteps: 100000000}
	})
	register("codec-hist-3", func() *Scenario {
		return &Scenario{Name: "codec-hist-3", Doc: "all histories of <=3 codec operations from cold caches", Body: codecHistories(3), MaxSteps: 100000000}
	})
	register("codec-hist-4", func() *Scenario {
		return &Scenario{Name: "codec-hist-4", Doc: "all histories of <=4 codec operations from cold caches", Body: codecHistories(4), MaxSteps: 1000000000}
	})
	for _, en := range []string{"ttlv", "xml", "json", "text"} {
		en := en
		register("codec-pairs-"+en, func() *Scenario {
			return &Scenario{Name: "codec-pairs-" + en, Doc: "all ordered pairs of the rich baseline messages (27 operations x request/response x versions 1.0, 1.4) on a reused cleared " + en + " encoder and as successive Marshal calls from cold caches",
				Body: codecPairs(en, []kmip.ProtocolVersion{kmip.V1_0, kmip.V1_4}), MaxSteps: 2000000000}
		})
		register("codec-pairs5-"+en, func() *Scenario {
			return &Scenario{Name: "codec-pairs5-" + en, Doc: "the same over versions 1.0..1.4", Body: codecPairs(en, msg.Versions), MaxSteps: 2000000000}
		})
	}
	// the same type first used by two threads at once (decode || decode, encode || encode), well-formed and malformed input
	cs([]string{"dec-custattr-a-ttlv"}, []string{"dec-custattr-b-xml"})
	cs([]string{"dec-custattr-a-ttlv"}, []string{"dec-custattr-c-json"})
	cs([]string{"dec-req12-ttlv"}, []string{"dec-req12-ttlv"})
	cs([]string{"dec-resp13-xml"}, []string{"dec-resp13-xml"})
	cs([]string{"dec-create14-json"}, []string{"dec-create14-json"})
	cs([]string{"enc-req14-ttlv"}, []string{"enc-req14-ttlv"})
	cs([]string{"enc-resp14-xml"}, []string{"enc-resp14-xml"})
	cs([]string{"enc-eckey-a-ttlv"}, []string{"enc-eckey-b-ttlv"})
	cs([]string{"enc-eckey-a-ttlv"}, []string{"enc-eckey-b-xml"})
	cs([]string{"enc-eckey-a-json"}, []string{"enc-eckey-b-xml"})
	cs([]string{"dec-trunc-req12-ttlv"}, []string{"dec-req12-ttlv"})
	cs([]string{"dec-trunc-resp13-xml"}, []string{"dec-trunc-resp13-xml"})
	cs([]string{"dec-trunc-create14-json"}, []string{"dec-create14-json"})
	cs([]string{"enc-req10-ttlv"}, []string{"enc-req14-ttlv"})
	cs([]string{"enc-req10-ttlv"}, []string{"dec-req12-ttlv"})
	cs([]string{"enc-resp14-xml"}, []string{"enc-resp12-json"})
	cs([]string{"enc-create11-xml"}, []string{"enc-create14-ttlv"})
	cs([]string{"dec-resp13-xml"}, []string{"enc-resp14-xml"})
	cs([]string{"dec-create14-json"}, []string{"enc-create11-xml"})
	cs([]string{"reuse-10-then-14"}, []string{"reuse-14-then-10"})
	cs([]string{"enc-req10-ttlv", "dec-resp13-xml"}, []string{"enc-resp14-xml", "dec-req12-ttlv"})
	cs([]string{"enc-req10-ttlv"}, []string{"enc-req14-ttlv"}, []string{"dec-req12-ttlv"})
}
