//go:build verifmc && verifmc_codec

package scen

func resetPackages() {}
