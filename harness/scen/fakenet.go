//go:build verifmc

// Package scen holds the scenarios explored under the controlled scheduler: an in-memory network built on
// the mc primitives and scripted clients / servers around the real kmipserver and kmipclient code.
package scen

import (
	"errors"
	"io"
	"net"
	"syscall"
	"time"

	mc "github.com/ovh/kmip-go/zz_verif/mc"
)

type addr string

func (a addr) Network() string { return "mc" }
func (a addr) String() string  { return string(a) }

type half struct {
	o      mc.Obj
	buf    []byte
	closed bool // writer side closed
	rdGone bool // reader side closed (writes fail)
	cap    int  // 0 = unbounded
}

// Fault kinds selectable per connection end.
const (
	FNone = iota
	FEOF
	FClosed
	FReset
	FShort
)

type Conn struct {
	st          mc.Obj
	name        string
	Shown       string // address reported by LocalAddr / by the peer's RemoteAddr instead of name
	in, out     *half
	localClosed bool
	peer        *Conn
	ReadFaults  []int // environment answers offered at each Read besides "ok" (cost: one fault each)
	WriteFaults []int // same for Write
	OnFault     func()
	dead        error // once failed, every later operation fails the same way
	ReadSizes   []int // if set, each Read is answered with a size chosen among these (first = default)
	Ops         int
}

// Pipe returns the two ends of an in-memory connection. capacity bounds each direction (0 = unbounded).
func Pipe(aname, bname string, capacity int) (*Conn, *Conn) {
	a2b, b2a := &half{cap: capacity}, &half{cap: capacity}
	a := &Conn{name: aname, in: b2a, out: a2b}
	b := &Conn{name: bname, in: a2b, out: b2a}
	a.peer, b.peer = b, a
	return a, b
}

func faultErr(k int) error {
	switch k {
	case FEOF:
		return io.EOF
	case FClosed:
		return net.ErrClosed
	case FReset:
		return &net.OpError{Op: "read", Net: "mc", Err: syscall.ECONNRESET}
	}
	return errors.New("fault")
}

// kill makes the connection fail from now on: the local side errors, the peer sees EOF / broken pipe.
func (c *Conn) kill(err error) {
	c.dead = err
	mc.EvWrite(&c.st, "kill", 0)
	mc.EvWrite(&c.out.o, "kill.out", 0)
	mc.EvWrite(&c.in.o, "kill.in", 0)
	c.out.closed = true
	c.in.rdGone = true
}

func (c *Conn) envFault(op string, faults []int) (int, bool) {
	if len(faults) == 0 || c.dead != nil || c.localClosed {
		return 0, false
	}
	a := mc.Choose(c.name+"."+op+".env", 1+len(faults))
	if a == 0 {
		return 0, false
	}
	if c.OnFault != nil {
		c.OnFault()
	}
	return faults[a-1], true
}

func (c *Conn) Read(p []byte) (int, error) {
	c.Ops++
	short := false
	if k, ok := c.envFault("Read", c.ReadFaults); ok {
		if k == FShort {
			short = true
		} else {
			c.kill(faultErr(k))
		}
	}
	mc.Block(c.name+".Read", func() bool { return len(c.in.buf) > 0 || c.in.closed || c.localClosed || c.dead != nil })
	mc.EvWrite(&c.in.o, "read", uint64(len(p)))
	mc.EvRead(&c.st, "rd.closed?", 0)
	if c.localClosed {
		return 0, net.ErrClosed
	}
	if c.dead != nil {
		return 0, c.dead
	}
	if len(c.in.buf) == 0 {
		return 0, io.EOF
	}
	lim := len(p)
	if short && lim > 1 {
		lim = 1
	}
	if len(c.ReadSizes) > 0 {
		a := mc.ChooseFree(c.name+".Read.size", len(c.ReadSizes))
		if s := c.ReadSizes[a]; s > 0 && s < lim {
			lim = s
		}
	}
	n := copy(p[:lim], c.in.buf)
	c.in.buf = c.in.buf[n:]
	return n, nil
}

func (c *Conn) Write(p []byte) (int, error) {
	c.Ops++
	short := false
	if k, ok := c.envFault("Write", c.WriteFaults); ok {
		if k == FShort {
			short = true
		} else {
			c.kill(faultErr(k))
		}
	}
	written := 0
	for {
		mc.Block(c.name+".Write", func() bool {
			return c.localClosed || c.dead != nil || c.out.rdGone || c.out.cap == 0 || len(c.out.buf) < c.out.cap
		})
		mc.EvRead(&c.st, "wr.closed?", 0)
		mc.EvWrite(&c.out.o, "write", uint64(len(p)))
		if c.localClosed {
			return written, net.ErrClosed
		}
		if c.dead != nil {
			return written, c.dead
		}
		if c.out.rdGone {
			return written, &net.OpError{Op: "write", Net: "mc", Err: syscall.EPIPE}
		}
		chunk := p[written:]
		if c.out.cap > 0 && len(chunk) > c.out.cap-len(c.out.buf) {
			chunk = chunk[:c.out.cap-len(c.out.buf)]
		}
		if short && len(chunk) > 1 {
			// short write: half of the data goes out, then the connection breaks
			chunk = chunk[:len(chunk)/2]
			c.out.buf = append(c.out.buf, chunk...)
			written += len(chunk)
			c.kill(&net.OpError{Op: "write", Net: "mc", Err: syscall.ECONNRESET})
			return written, c.dead
		}
		c.out.buf = append(c.out.buf, chunk...)
		written += len(chunk)
		if written == len(p) {
			return written, nil
		}
	}
}

func (c *Conn) Close() error {
	mc.Yield(c.name + ".Close")
	mc.EvWrite(&c.st, "close", 0)
	mc.EvWrite(&c.out.o, "closehalf", 0)
	mc.EvWrite(&c.in.o, "closewake", 0)
	if c.localClosed {
		return net.ErrClosed
	}
	c.localClosed = true
	c.out.closed = true
	c.in.rdGone = true
	return nil
}

// CloseWrite half-closes: the peer reads EOF after the buffered data, this side can still read.
func (c *Conn) CloseWrite() error {
	mc.Yield(c.name + ".CloseWrite")
	mc.EvWrite(&c.out.o, "closehalf", 0)
	c.out.closed = true
	return nil
}

func (c *Conn) LocalAddr() net.Addr                { return addr(c.shownName()) }
func (c *Conn) RemoteAddr() net.Addr               { return addr(c.peer.shownName()) }

// shownName is the address the connection reports: its unique name, or Shown when set (connections of a unix
// socket or of an in-memory listener all report the same address).
func (c *Conn) shownName() string {
	if c.Shown != "" {
		return c.Shown
	}
	return c.name
}
func (c *Conn) SetDeadline(t time.Time) error      { return nil }
func (c *Conn) SetReadDeadline(t time.Time) error  { return nil }
func (c *Conn) SetWriteDeadline(t time.Time) error { return nil }

type Listener struct {
	o      mc.Obj
	q      []net.Conn
	closed bool
	Cap    int
	n      int
	// CloseErr, if set, is what Close returns (the listener is closed all the same), e.g. a socket file that cannot be removed
	CloseErr error
	// SameAddr: every connection reports the same local and remote address ("@"), as the connections of a unix socket do
	SameAddr bool
}

func (l *Listener) Accept() (net.Conn, error) {
	mc.Block("Accept", func() bool { return len(l.q) > 0 || l.closed })
	mc.EvWrite(&l.o, "accept", 0)
	if l.closed {
		return nil, net.ErrClosed
	}
	c := l.q[0]
	l.q = l.q[1:]
	return c, nil
}
func (l *Listener) Close() error {
	mc.Yield("lis.Close")
	mc.EvWrite(&l.o, "lclose", 0)
	if l.closed {
		return net.ErrClosed
	}
	l.closed = true
	// connections still in the accept backlog are reset, as a TCP stack does
	for _, q := range l.q {
		if c, ok := q.(*Conn); ok {
			mc.EvWrite(&c.st, "close", 0)
			mc.EvWrite(&c.out.o, "closehalf", 0)
			mc.EvWrite(&c.in.o, "closewake", 0)
			c.localClosed = true
			c.out.closed = true
			c.in.rdGone = true
		}
	}
	l.q = nil
	return l.CloseErr
}
func (l *Listener) Addr() net.Addr { return addr("lis") }
func (l *Listener) IsClosed() bool { return l.closed }

// Dial connects a new client; returns the client end, or nil if the listener is closed.
func (l *Listener) Dial(name string) *Conn {
	mc.Yield("dial")
	mc.EvWrite(&l.o, "dial", 0)
	if l.closed {
		return nil
	}
	l.n++
	a, b := Pipe(name, name+"@srv", l.Cap)
	if l.SameAddr {
		a.Shown, b.Shown = "@", "@"
	}
	l.q = append(l.q, b)
	return a
}

// ReadFrame reads one TTLV item (header + padded value) from r; used by scripted peers.
func ReadFrame(r io.Reader) ([]byte, error) {
	hdr := make([]byte, 8)
	if _, err := io.ReadFull(r, hdr); err != nil {
		return nil, err
	}
	l := int(hdr[4])<<24 | int(hdr[5])<<16 | int(hdr[6])<<8 | int(hdr[7])
	l = (l + 7) / 8 * 8
	if l > 1<<20 {
		return nil, errors.New("frame too large")
	}
	body := make([]byte, l)
	if _, err := io.ReadFull(r, body); err != nil {
		return nil, err
	}
	return append(hdr, body...), nil
}

// ---- frame-level access for scripted peers (one scheduling point per message instead of several) ----

func frameLen(b []byte) int {
	if len(b) < 8 {
		return -1
	}
	l := int(b[4])<<24 | int(b[5])<<16 | int(b[6])<<8 | int(b[7])
	l = 8 + (l+7)/8*8
	if len(b) < l {
		return -1
	}
	return l
}

// RecvFrame blocks until a whole TTLV item is buffered (one step) and returns it; io.EOF / error when the
// stream ended first (a partial item counts as ended once the writer has closed).
func (c *Conn) RecvFrame() ([]byte, error) {
	if c.in.cap > 0 {
		return ReadFrame(c) // a bounded pipe may never hold a whole item
	}
	mc.Block(c.name+".RecvFrame", func() bool {
		return frameLen(c.in.buf) > 0 || c.in.closed || c.localClosed || c.dead != nil
	})
	mc.EvWrite(&c.in.o, "readframe", 0)
	mc.EvRead(&c.st, "rd.closed?", 0)
	if c.localClosed {
		return nil, net.ErrClosed
	}
	if c.dead != nil {
		return nil, c.dead
	}
	n := frameLen(c.in.buf)
	if n < 0 {
		if len(c.in.buf) > 0 {
			c.in.buf = nil
			return nil, io.ErrUnexpectedEOF
		}
		return nil, io.EOF
	}
	fr := append([]byte{}, c.in.buf[:n]...)
	c.in.buf = c.in.buf[n:]
	return fr, nil
}
