//go:build verifmc

package scen

import (
	"context"
	"fmt"
	"strings"
	"time"

	"github.com/ovh/kmip-go"
	"github.com/ovh/kmip-go/kmipclient"
	"github.com/ovh/kmip-go/kmipserver"
	"github.com/ovh/kmip-go/payloads"
	mc "github.com/ovh/kmip-go/zz_verif/mc"
)

type mwTraceKey struct{}

// mwScenario: nReq requests run concurrently through one shared, freshly built executor with nMsg message stages
// and nItem batch-item stages; every stage yields, then appends to the request's own trace. Each trace must be
// exactly [M0 .. M(n-1) I0 .. I(k-1) H].
func mwScenario(nReq, nMsg, nItem int, retry bool) func() {
	return func() {
		resetPackages()
		exec := kmipserver.NewBatchExecutor()
		exec.Route(kmip.OperationActivate, kmipserver.HandleFunc(func(ctx context.Context, req *payloads.ActivateRequestPayload) (*payloads.ActivateResponsePayload, error) {
			tr := ctx.Value(mwTraceKey{}).(*[]string)
			*tr = append(*tr, "H")
			return &payloads.ActivateResponsePayload{UniqueIdentifier: req.UniqueIdentifier}, nil
		}))
		for i := 0; i < nMsg; i++ {
			i := i
			exec.Use(func(next kmipserver.Next, ctx context.Context, msg *kmip.RequestMessage) (*kmip.ResponseMessage, error) {
				mc.Yield("stage")
				tr := ctx.Value(mwTraceKey{}).(*[]string)
				*tr = append(*tr, fmt.Sprintf("M%d", i))
				if retry && i == 0 {
					_, _ = next(ctx, msg)
				}
				return next(ctx, msg)
			})
		}
		for i := 0; i < nItem; i++ {
			i := i
			exec.BatchItemUse(func(next kmipserver.BatchItemNext, ctx context.Context, bi *kmip.RequestBatchItem) (*kmip.ResponseBatchItem, error) {
				mc.Yield("stage")
				tr := ctx.Value(mwTraceKey{}).(*[]string)
				*tr = append(*tr, fmt.Sprintf("I%d", i))
				return next(ctx, bi)
			})
		}
		var want []string
		once := func() []string {
			var w []string
			for i := 1; i < nMsg; i++ {
				w = append(w, fmt.Sprintf("M%d", i))
			}
			for i := 0; i < nItem; i++ {
				w = append(w, fmt.Sprintf("I%d", i))
			}
			return append(w, "H")
		}
		if nMsg > 0 {
			want = append(want, "M0")
			if retry {
				want = append(want, once()...)
			}
			want = append(want, once()...)
		} else {
			want = once()
		}
		done := make([]*mc.Var[bool], nReq)
		for r := 0; r < nReq; r++ {
			r := r
			done[r] = &mc.Var[bool]{}
			mc.GoNamed(fmt.Sprintf("req%d", r), func() {
				var tr []string
				ctx := context.WithValue(context.Background(), mwTraceKey{}, &tr)
				msg := kmip.NewRequestMessage(kmip.V1_4, &payloads.ActivateRequestPayload{UniqueIdentifier: fmt.Sprint("id", r)})
				resp := exec.HandleRequest(ctx, &msg)
				if resp == nil || len(resp.BatchItem) != 1 || resp.BatchItem[0].ResultStatus != kmip.ResultStatusSuccess {
					mc.Failf("middleware-chain-under-concurrency: request %d failed", r)
				} else if strings.Join(tr, " ") != strings.Join(want, " ") {
					mc.Failf("middleware-chain-under-concurrency: request %d ran stages [%s], expected [%s]", r, strings.Join(tr, " "), strings.Join(want, " "))
				}
				mc.Observe(mc.HashStr(strings.Join(tr, " ")))
				done[r].Store(true)
			})
		}
		for _, d := range done {
			d.Await(true)
		}
	}
}

// cliMwScenario: nReq callers share one kmipclient.Client (and hence its middleware slice) with nMw yielding stages over a
// scripted echo server; stage `retry` (if >= 0) invokes its continuation twice. Each caller's trace must be the
// reference trace and its response must carry its own identifier (the innermost stage is the real transport).
func cliMwScenario(nReq, nMw, retry int, libmw ...bool) func() {
	return func() {
		resetPackages()
		w := &cliWorld{seen: map[string]int{}}
		var mws []kmipclient.Middleware
		for i := 0; i < nMw; i++ {
			i := i
			mws = append(mws, func(next kmipclient.Next, ctx context.Context, msg *kmip.RequestMessage) (*kmip.ResponseMessage, error) {
				mc.Yield("stage")
				if tr, ok := ctx.Value(mwTraceKey{}).(*[]string); ok {
					*tr = append(*tr, fmt.Sprintf("C%d", i))
				}
				if i == retry {
					_, _ = next(ctx, msg)
				}
				return next(ctx, msg)
			})
		}
		if len(libmw) > 0 && libmw[0] && len(mws) > 0 {
			// the library's own stages between the harness' ones: a 1 s timeout (abstract time: its timer may fire at any
			// point; a call that fails after a timer fired is excused) and the correlation value stage
			n := 0
			lib := []kmipclient.Middleware{kmipclient.TimeoutMiddleware(time.Second), kmipclient.CorrelationValueMiddleware(func() string { n++; return fmt.Sprint("c", n) })}
			mws = append(append(append([]kmipclient.Middleware{}, mws[:1]...), lib...), mws[1:]...)
		}
		cl, err := kmipclient.DialContext(context.Background(), "mc", kmipclient.WithDialerUnsafe(w.dialer), kmipclient.EnforceVersion(kmip.V1_4), kmipclient.WithMiddlewares(mws...))
		if err != nil {
			mc.Failf("middleware-chain-under-concurrency: dial failed: %v", err)
			return
		}
		var tail func(i int) []string
		tail = func(i int) []string {
			if i >= nMw {
				return []string{}
			}
			r := []string{fmt.Sprintf("C%d", i)}
			if i == retry {
				r = append(r, tail(i+1)...)
			}
			return append(r, tail(i+1)...)
		}
		want := strings.Join(tail(0), " ")
		sends := 1
		if retry >= 0 {
			sends = 2
		}
		done := make([]*mc.Var[bool], nReq)
		for r := 0; r < nReq; r++ {
			r := r
			done[r] = &mc.Var[bool]{}
			mc.GoNamed(fmt.Sprintf("caller%d", r), func() {
				var tr []string
				ctx := context.WithValue(context.Background(), mwTraceKey{}, &tr)
				id := fmt.Sprint("id", r)
				resp, err := cl.Request(ctx, &payloads.ActivateRequestPayload{UniqueIdentifier: id})
				if err != nil {
					if mc.TimersFired() == 0 {
						mc.Failf("middleware-chain-under-concurrency: client call %d failed although no timer had fired: %v", r, err)
					}
				} else if pl, ok := resp.(*payloads.ActivateResponsePayload); !ok || pl.UniqueIdentifier != id {
					mc.Failf("middleware-chain-under-concurrency: client call %d got %v", r, resp)
				} else if strings.Join(tr, " ") != want {
					mc.Failf("middleware-chain-under-concurrency: client call %d ran stages [%s], expected [%s]", r, strings.Join(tr, " "), want)
				}
				mc.Observe(mc.HashStr(strings.Join(tr, " ")))
				done[r].Store(true)
			})
		}
		for _, d := range done {
			d.Await(true)
		}
		_ = cl.Close()
		for id, n := range w.seen {
			if n != sends && mc.TimersFired() == 0 {
				mc.Failf("middleware-chain-under-concurrency: request %s reached the transport %d times, expected %d", id, n, sends)
			}
		}
	}
}

func init() {
	reg := func(name, doc string, f func()) {
		register(name, func() *Scenario { return &Scenario{Name: name, Doc: doc, Body: f} })
	}
	reg("mw-conc-2x2", "two concurrent first requests on a fresh executor with 2 message stages and 1 item stage", mwScenario(2, 2, 1, false))
	reg("mw-conc-2x3", "two concurrent first requests on a fresh executor with 3 message stages and 2 item stages", mwScenario(2, 3, 2, false))
	reg("mw-conc-3x2", "three concurrent first requests, 2 message stages, 1 item stage", mwScenario(3, 2, 1, false))
	reg("cmw-conc-2x2", "two concurrent callers through one client with 2 middlewares over a real connection", cliMwScenario(2, 2, -1))
	reg("cmw-conc-2x2-retry", "two concurrent callers, 2 client middlewares, the outer one calls next twice", cliMwScenario(2, 2, 0))
	reg("cmw-conc-2x2-libmw", "two concurrent callers through [harness stage, library timeout stage, library correlation stage, harness stage]", cliMwScenario(2, 2, -1, true))
	reg("cmw-conc-3x1", "three concurrent callers, 1 client middleware", cliMwScenario(3, 1, -1))
	reg("mw-conc-2x2-retry", "two concurrent requests, the outermost message stage calls next twice", mwScenario(2, 2, 1, true))
}
