//go:build verifmc

package scen

import (
	"io"
	"log/slog"

	mc "github.com/ovh/kmip-go/zz_verif/mc"
)

func init() {
	slog.SetDefault(slog.New(slog.NewTextHandler(io.Discard, &slog.HandlerOptions{Level: slog.Level(100)})))
}

// Scenario is one closed system explored by the scheduler.
type Scenario struct {
	Name   string
	Doc    string
	Body   func()
	Oracle mc.Oracle // nil = mc.DefaultOracle
	MaxSteps int     // 0 = default (5000)
}

var Registry = map[string]func() *Scenario{}

func register(name string, f func() *Scenario) { Registry[name] = f }
