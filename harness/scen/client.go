//go:build verifmc

package scen

import (
	"context"
	"errors"
	"fmt"
	"io"
	"net"
	"time"

	"github.com/ovh/kmip-go"
	"github.com/ovh/kmip-go/kmipclient"
	"github.com/ovh/kmip-go/payloads"
	"github.com/ovh/kmip-go/ttlv"
	mc "github.com/ovh/kmip-go/zz_verif/mc"
)

// CliCfg describes a client scenario: callers issue Activate requests carrying unique identifiers through
// one shared kmipclient.Client whose dialer creates in-memory connections served by scripted echo servers.
type CliCfg struct {
	Callers     [][]Call // one thread per caller; calls of one caller are sequential
	Negotiate   bool     // dial with version discovery instead of an enforced version
	ReadFaults  []int    // environment answers on the client's side of every connection
	WriteFaults []int
	DialFaults  bool // a dial may be refused
	SrvClose    bool // the server may close right after replying
	NoCommon    bool // the server's Discover Versions answer shares no version with the client: Dial must fail and leave nothing behind
	Bytes       bool // calls are Encrypt requests whose response carries a byte string (the identifier); the responses are kept and re-read once everything has ended
	Closer      bool // a further thread calls Close on the client at any time
	LibMw       bool // the client is built with the library's own middlewares (TimeoutMiddleware, CorrelationValueMiddleware, DebugMiddleware)
	SrvStray    bool // the server sends an unsolicited request message before every response (the client must skip it)
	DropFirst   int  // the servers of the first DropFirst connections read one call's request and close without answering (a persistent fault, outside the fault budget)
	CheckFaults bool // apply the C11 recovery oracle
	AfterClose  bool // after Close: a further call must fail, second Close must not panic
	ReadSizes   []int
}

type Call struct {
	ID  string
	Ctx string // "", "cancel", "timeout", "mwtimeout"
}

type cliWorld struct {
	cfg    CliCfg
	dials  int
	faults int            // environment faults injected so far (observed by the harness, single-threaded access)
	seen   map[string]int // request transmissions seen by servers, per identifier
	drops  int            // connections whose server has dropped a request so far (DropFirst)
	conns  []*Conn
	closeReturned mc.Var[bool] // set once the closer thread's Close has returned
	held          map[string]*payloads.EncryptResponsePayload
}

// echoServer answers each Activate request with its own identifier; DiscoverVersions with 1.4..1.0.
func (w *cliWorld) echoServer(c *Conn) {
	for {
		fr, err := c.RecvFrame()
		if err != nil {
			_ = c.Close()
			return
		}
		var req kmip.RequestMessage
		if err := ttlv.UnmarshalTTLV(fr, &req); err != nil || len(req.BatchItem) != 1 {
			mc.Failf("server-got-garbage: %v", err)
			_ = c.Close()
			return
		}
		var pl kmip.OperationPayload
		switch p := req.BatchItem[0].RequestPayload.(type) {
		case *payloads.ActivateRequestPayload:
			w.seen[p.UniqueIdentifier]++
			mc.Observe(mc.HashStr(p.UniqueIdentifier))
			pl = &payloads.ActivateResponsePayload{UniqueIdentifier: p.UniqueIdentifier}
		case *payloads.EncryptRequestPayload:
			w.seen[p.UniqueIdentifier]++
			mc.Observe(mc.HashStr(p.UniqueIdentifier))
			pl = &payloads.EncryptResponsePayload{UniqueIdentifier: p.UniqueIdentifier, Data: append([]byte{}, p.Data...)}
		case *payloads.DiscoverVersionsRequestPayload:
			pl = &payloads.DiscoverVersionsResponsePayload{ProtocolVersion: []kmip.ProtocolVersion{kmip.V1_4, kmip.V1_3, kmip.V1_2, kmip.V1_1, kmip.V1_0}}
			if w.cfg.NoCommon {
				pl = &payloads.DiscoverVersionsResponsePayload{ProtocolVersion: []kmip.ProtocolVersion{{ProtocolVersionMajor: 9, ProtocolVersionMinor: 9}}}
			}
		default:
			mc.Failf("server-got-garbage: unexpected payload %T", p)
			_ = c.Close()
			return
		}
		if _, isCall := pl.(*payloads.ActivateResponsePayload); isCall && w.drops < w.cfg.DropFirst {
			w.drops++
			w.faults++
			_ = c.Close()
			return
		}
		resp := kmip.ResponseMessage{
			Header:    kmip.ResponseHeader{ProtocolVersion: req.Header.ProtocolVersion, BatchCount: 1},
			BatchItem: []kmip.ResponseBatchItem{{Operation: req.BatchItem[0].Operation, ResponsePayload: pl}},
		}
		if w.cfg.SrvStray {
			stray := kmip.NewRequestMessage(kmip.V1_4, &payloads.ActivateRequestPayload{UniqueIdentifier: "server-originated"})
			if _, err := c.Write(ttlv.MarshalTTLV(&stray)); err != nil {
				_ = c.Close()
				return
			}
		}
		if _, err := c.Write(ttlv.MarshalTTLV(&resp)); err != nil {
			_ = c.Close()
			return
		}
		if w.cfg.SrvClose {
			if mc.Choose("srv.closeAfterReply", 2) == 1 {
				w.faults++
				_ = c.Close()
				return
			}
		}
	}
}

func (w *cliWorld) dialer(ctx context.Context) (net.Conn, error) {
	mc.Yield("dial")

	if w.cfg.DialFaults {
		if mc.Choose("dial.env", 2) == 1 {
			w.faults++
			return nil, &net.OpError{Op: "dial", Net: "mc", Err: errors.New("connection refused")}
		}
	}
	w.dials++
	a, b := Pipe(fmt.Sprintf("cli%d", w.dials), fmt.Sprintf("srv%d", w.dials), 0)
	a.ReadFaults, a.WriteFaults, a.ReadSizes = w.cfg.ReadFaults, w.cfg.WriteFaults, w.cfg.ReadSizes
	a.OnFault = func() { w.faults++ }
	w.conns = append(w.conns, a)
	mc.GoDaemon(fmt.Sprintf("echo%d", w.dials), func() { w.echoServer(b) })
	return a, nil
}

// call performs one request and checks the C10 oracle (own response or error). Returns whether it succeeded.
func (w *cliWorld) call(cl *kmipclient.Client, c Call) bool {
	ctx := context.Background()
	switch c.Ctx {
	case "cancel":
		cctx, cancel := mc.WithCancel(ctx)
		ctx = cctx
		mc.GoNamed("canceller-"+c.ID, func() { cancel() })
	case "timeout":
		cctx, cancel := mc.WithTimeout(ctx, time.Second)
		ctx = cctx
		defer cancel()
	}
	if w.cfg.Bytes {
		resp, err := cl.Request(ctx, &payloads.EncryptRequestPayload{UniqueIdentifier: c.ID, Data: []byte("data-of-" + c.ID)})
		if err != nil {
			mc.Observe(1)
			return false
		}
		pl, ok := resp.(*payloads.EncryptResponsePayload)
		if !ok {
			mc.Failf("corrupt-response: call %s got payload %T", c.ID, resp)
			return false
		}
		mc.Observe(mc.HashStr(pl.UniqueIdentifier))
		if pl.UniqueIdentifier != c.ID || string(pl.Data) != "data-of-"+c.ID {
			mc.Failf("misassociation: call %s received the response to %s (data %q)", c.ID, pl.UniqueIdentifier, pl.Data)
			return false
		}
		w.held[c.ID] = pl
		return true
	}
	resp, err := cl.Request(ctx, &payloads.ActivateRequestPayload{UniqueIdentifier: c.ID})
	if err != nil {
		mc.Observe(1)
		return false
	}
	pl, ok := resp.(*payloads.ActivateResponsePayload)
	if !ok {
		mc.Failf("corrupt-response: call %s got payload %T", c.ID, resp)
		return false
	}
	mc.Observe(mc.HashStr(pl.UniqueIdentifier))
	if pl.UniqueIdentifier != c.ID {
		mc.Failf("misassociation: call %s received the response to %s", c.ID, pl.UniqueIdentifier)
		return false
	}
	return true
}

func clientScenario(cfg CliCfg) func() {
	return func() {
		resetPackages()
		w := &cliWorld{cfg: cfg, seen: map[string]int{}, held: map[string]*payloads.EncryptResponsePayload{}}
		opts := []kmipclient.Option{kmipclient.WithDialerUnsafe(w.dialer)}
		if !cfg.Negotiate {
			opts = append(opts, kmipclient.EnforceVersion(kmip.V1_4))
		}
		if cfg.LibMw {
			n := 0
			opts = append(opts, kmipclient.WithMiddlewares(
				kmipclient.CorrelationValueMiddleware(func() string { n++; return fmt.Sprint("corr", n) }),
				kmipclient.TimeoutMiddleware(time.Second),
				kmipclient.DebugMiddleware(io.Discard, nil)))
		}
		f0 := w.faults
		cl, err := kmipclient.DialContext(context.Background(), "mc", opts...)
		if err != nil {
			if w.faults == f0 && !cfg.NoCommon {
				mc.Failf("dial-failed: without any injected fault: %v", err)
			}
			// a failed Dial leaves nothing behind: every connection it opened (it may have re-dialled after a fault) is closed
			mc.Yield("settle")
			for i, cn := range w.conns {
				if !cn.localClosed {
					mc.Failf("dial-failed-connection-left-open: Dial returned %v but connection %d it had opened is still open", err, i+1)
				}
			}
			return
		}
		if cfg.NoCommon {
			mc.Failf("dial-failed-expected: Dial succeeded although the server shares no version with the client")
			_ = cl.Close()
			return
		}
		done := make([]*mc.Var[bool], len(cfg.Callers))
		for i, calls := range cfg.Callers {
			i, calls := i, calls
			done[i] = &mc.Var[bool]{}
			body := func() {
				prevFailed := false
				for _, c := range calls {
					fb := w.faults
					closedBefore := cfg.Closer && w.closeReturned.Load()
					ok := w.call(cl, c)
					if ok && closedBefore {
						mc.Failf("call-after-close-succeeded: call %s, started after Close had returned, got a response", c.ID)
					}
					if cfg.CheckFaults && len(cfg.Callers) == 1 && c.Ctx == "" {
						if !ok && prevFailed && w.faults == fb {
							mc.Failf("no-recovery: call %s failed although the previous call had already failed and no fault was injected during it (dials so far %d)", c.ID, w.dials)
						}
						if !ok && w.faults == 0 {
							mc.Failf("spurious-failure: call %s failed without any injected fault", c.ID)
						}
					}
					prevFailed = !ok
				}
				done[i].Store(true)
			}
			if len(cfg.Callers) == 1 {
				body()
			} else {
				mc.GoNamed(fmt.Sprintf("caller%d", i), body)
			}
		}
		if cfg.Closer {
			mc.GoNamed("closer", func() {
				_ = cl.Close()
				w.closeReturned.Store(true)
			})
		}
		for _, d := range done {
			d.Await(true)
		}
		if cfg.Closer {
			// the closer's Close was the only one: once everything is quiescent no connection of the client may be left
			// open (a connection dialled by a call that overlapped Close must have been released by the client itself)
			w.closeReturned.Await(true)
			mc.Yield("settle")
			for i, cn := range w.conns {
				if !cn.localClosed {
					mc.Failf("call-after-close-connection-left-open: connection %d of the client is still open after Close returned and all calls ended", i+1)
				}
			}
		} else {
			_ = cl.Close()
		}
		if cfg.AfterClose {
			_ = cl.Close()
			if _, err := cl.Request(context.Background(), &payloads.ActivateRequestPayload{UniqueIdentifier: "after-close"}); err == nil {
				mc.Failf("call-after-close-succeeded: a call on a closed client returned a response")
			}
			_ = cl.Close()
		}
		// the responses handed to the callers are still their own once every later exchange has happened
		for id, pl := range w.held {
			if pl.UniqueIdentifier != id || string(pl.Data) != "data-of-"+id {
				mc.Failf("misassociation: the response kept by call %s reads (%s, %q) after the later exchanges on the connection", id, pl.UniqueIdentifier, pl.Data)
			}
		}
		for id, n := range w.seen {
			if n > 4 {
				mc.Failf("retransmit: request %s was transmitted %d times by a single call", id, n)
			}
		}
	}
}

func init() {
	cli := func(name, doc string, cfg CliCfg) {
		register(name, func() *Scenario { return &Scenario{Name: name, Doc: doc, Body: clientScenario(cfg)} })
	}
	// C10
	cli("cli-cancel-then-next", "call A with a context cancelled at any time, then call B on the same client", CliCfg{Callers: [][]Call{{{ID: "A", Ctx: "cancel"}, {ID: "B"}}}})
	cli("cli-timeout-seq", "calls A (timeout), B (timeout), C sequentially", CliCfg{Callers: [][]Call{{{ID: "A", Ctx: "timeout"}, {ID: "B", Ctx: "timeout"}, {ID: "C"}}}})
	cli("cli-par-2", "two concurrent callers A and B", CliCfg{Callers: [][]Call{{{ID: "A"}}, {{ID: "B"}}}})
	cli("cli-par-cancel", "caller A (cancellable) concurrent with caller B, then C after B", CliCfg{Callers: [][]Call{{{ID: "A", Ctx: "cancel"}}, {{ID: "B"}, {ID: "C"}}}})
	cli("cli-par-3", "three concurrent callers, one cancellable", CliCfg{Callers: [][]Call{{{ID: "A", Ctx: "cancel"}}, {{ID: "B"}}, {{ID: "C"}}}})
	cli("cli-stray-requests", "the server sends an unsolicited request message before every response; callers A (cancellable) and B, then C", CliCfg{SrvStray: true, Callers: [][]Call{{{ID: "A", Ctx: "cancel"}, {ID: "C"}}, {{ID: "B"}}}})
	cli("cli-par-2-libmw", "two concurrent callers through the library's own middlewares (correlation value, 1 s timeout, debug)", CliCfg{LibMw: true, Callers: [][]Call{{{ID: "A"}}, {{ID: "B"}}}})
	cli("cli-par-3-libmw", "three concurrent callers (one cancellable, one with a follow-up call) through the library's own middlewares", CliCfg{LibMw: true, Callers: [][]Call{{{ID: "A", Ctx: "cancel"}}, {{ID: "B"}, {ID: "D"}}, {{ID: "C"}}}})
	cli("cli-bytes-seq-par", "callers A then C, and B concurrently, with responses carrying byte strings; every response is re-read after all exchanges", CliCfg{Bytes: true, Callers: [][]Call{{{ID: "A"}, {ID: "C"}}, {{ID: "B"}}}})
	cli("cli-bytes-cancel", "A (cancellable) then B then C sequentially, byte-string responses re-read at the end", CliCfg{Bytes: true, Callers: [][]Call{{{ID: "A", Ctx: "cancel"}, {ID: "B"}, {ID: "C"}}}})
	cli("cli-negotiate-cancel", "dial with version discovery, then A cancellable, then B", CliCfg{Negotiate: true, Callers: [][]Call{{{ID: "A", Ctx: "cancel"}, {ID: "B"}}}})
	// C11
	rf := []int{FEOF, FReset, FShort}
	wf := []int{FClosed, FReset, FShort}
	cli("clf-seq3", "three sequential calls; every Read/Write of the client side may fail (EOF, reset, closed, short)", CliCfg{Callers: [][]Call{{{ID: "A"}, {ID: "B"}, {ID: "C"}}}, ReadFaults: rf, WriteFaults: wf, CheckFaults: true, AfterClose: true})
	cli("clf-seq3-srvclose", "three sequential calls; the server may close right after replying", CliCfg{Callers: [][]Call{{{ID: "A"}, {ID: "B"}, {ID: "C"}}}, SrvClose: true, CheckFaults: true, AfterClose: true})
	cli("clf-seq3-dial", "three sequential calls; reads may fail and dials may be refused", CliCfg{Callers: [][]Call{{{ID: "A"}, {ID: "B"}, {ID: "C"}}}, ReadFaults: []int{FEOF}, DialFaults: true, CheckFaults: true, AfterClose: true})
	cli("clf-negotiate", "dial with version discovery under faults, then two calls", CliCfg{Negotiate: true, Callers: [][]Call{{{ID: "A"}, {ID: "B"}}}, ReadFaults: rf, WriteFaults: wf, CheckFaults: true, AfterClose: true})
	cli("clf-par-2", "two concurrent callers (two calls each) under read/write faults", CliCfg{Callers: [][]Call{{{ID: "A"}, {ID: "C"}}, {{ID: "B"}, {ID: "D"}}}, ReadFaults: rf, WriteFaults: wf, SrvClose: true})
	cli("clf-close-during-call", "Close called by another thread at any time while a caller performs two calls: no dial and no successful call once Close has returned, nothing left behind", CliCfg{Closer: true, AfterClose: true, Callers: [][]Call{{{ID: "A"}, {ID: "B"}}}})
	cli("clf-close-during-call-srvclose", "the same while the server may close right after replying", CliCfg{Closer: true, SrvClose: true, AfterClose: true, Callers: [][]Call{{{ID: "A"}, {ID: "B"}}}})
	cli("clf-close-during-par", "Close at any time while two callers call concurrently", CliCfg{Closer: true, AfterClose: true, Callers: [][]Call{{{ID: "A"}}, {{ID: "B"}}}})
	cli("clf-negotiate-nocommon", "dial with version discovery against a server sharing no version, under read/write faults: Dial fails and every connection it opened is closed", CliCfg{Negotiate: true, NoCommon: true, ReadFaults: rf, WriteFaults: wf, SrvClose: true})
	for _, k := range []int{3, 4, 5, 9} {
		cli(fmt.Sprintf("clf-drop-%d", k), fmt.Sprintf("the servers of the first %d connections read the request and close without answering; three sequential calls: no request is transmitted more than four times, and a call made once the server answers again succeeds", k),
			CliCfg{DropFirst: k, Callers: [][]Call{{{ID: "A"}, {ID: "B"}, {ID: "C"}}}, CheckFaults: true, AfterClose: true})
	}
	cli("clf-close-only", "no faults: calls, close, call after close fails, close is idempotent", CliCfg{Callers: [][]Call{{{ID: "A"}}}, AfterClose: true, CheckFaults: true})
}

