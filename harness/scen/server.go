//go:build verifmc

package scen

import (
	"bytes"
	"context"
	"errors"
	"fmt"
	"io"
	"strings"
	"time"

	"github.com/ovh/kmip-go"
	"github.com/ovh/kmip-go/kmipserver"
	"github.com/ovh/kmip-go/payloads"
	"github.com/ovh/kmip-go/ttlv"
	mc "github.com/ovh/kmip-go/zz_verif/mc"
)

type stringer struct{}

func (stringer) String() string { return "stringer-panic" }

// Request identifiers select the handler behaviour: ok*, terr*, perr*, panicS*, panicE*, panicT*, panicX*, panicN*, slow*.
// undecodableRequest builds a correctly framed request message that stops being decodable after a good header:
// "item" (one announced item whose operation is a text), "item2" (two announced, a good one then the bad one),
// "payload" (a good operation code with a payload of the wrong shape), "nocount" (header without batch count, one good item).
func undecodableRequest(kind string) []byte {
	hdr := func(n int32, count bool) ttlv.Value {
		h := ttlv.Struct{{Tag: kmip.TagProtocolVersion, Value: ttlv.Struct{{Tag: kmip.TagProtocolVersionMajor, Value: int32(1)}, {Tag: kmip.TagProtocolVersionMinor, Value: int32(4)}}}}
		if count {
			h = append(h, ttlv.Value{Tag: kmip.TagBatchCount, Value: n})
		}
		return ttlv.Value{Tag: kmip.TagRequestHeader, Value: h}
	}
	good := ttlv.Value{Tag: kmip.TagBatchItem, Value: ttlv.Struct{{Tag: kmip.TagOperation, Value: ttlv.Enum(kmip.OperationActivate)},
		{Tag: kmip.TagRequestPayload, Value: ttlv.Struct{{Tag: kmip.TagUniqueIdentifier, Value: "ok1"}}}}}
	bad := ttlv.Value{Tag: kmip.TagBatchItem, Value: ttlv.Struct{{Tag: kmip.TagOperation, Value: "x"}}}
	badPayload := ttlv.Value{Tag: kmip.TagBatchItem, Value: ttlv.Struct{{Tag: kmip.TagOperation, Value: ttlv.Enum(kmip.OperationActivate)},
		{Tag: kmip.TagRequestPayload, Value: ttlv.Struct{{Tag: kmip.TagUniqueIdentifier, Value: int32(7)}}}}}
	if strings.HasPrefix(kind, "short-") {
		// a fully framed request in which one fixed-width item announces fewer bytes than its type has (the item still fills its
		// 8-byte block): Batch Count with length 2, Protocol Version Major with length 1, Operation with length 3, Time Stamp with length 4
		h := ttlv.Struct{{Tag: kmip.TagProtocolVersion, Value: ttlv.Struct{{Tag: kmip.TagProtocolVersionMajor, Value: int32(1)}, {Tag: kmip.TagProtocolVersionMinor, Value: int32(4)}}},
			{Tag: kmip.TagTimeStamp, Value: time.Unix(1700000000, 0)}, {Tag: kmip.TagBatchCount, Value: int32(1)}}
		raw := ttlv.MarshalTTLV(ttlv.Value{Tag: kmip.TagRequestMessage, Value: ttlv.Struct{{Tag: kmip.TagRequestHeader, Value: h}, good}})
		patch := map[string]struct {
			item []byte
			l    byte
		}{
			"short-count":     {[]byte{0x42, 0x00, 0x0D, 0x02, 0, 0, 0, 4}, 2},
			"short-major":     {[]byte{0x42, 0x00, 0x6A, 0x02, 0, 0, 0, 4}, 1},
			"short-operation": {[]byte{0x42, 0x00, 0x5C, 0x05, 0, 0, 0, 4}, 3},
			"short-timestamp": {[]byte{0x42, 0x00, 0x92, 0x09, 0, 0, 0, 8}, 4},
		}[kind]
		i := bytes.Index(raw, patch.item)
		if patch.item == nil || i < 0 {
			panic("undecodableRequest: cannot build " + kind)
		}
		raw = append([]byte{}, raw...)
		raw[i+7] = patch.l
		return raw
	}
	var m ttlv.Struct
	switch kind {
	case "item":
		m = ttlv.Struct{hdr(1, true), bad}
	case "item2":
		m = ttlv.Struct{hdr(2, true), good, bad}
	case "payload":
		m = ttlv.Struct{hdr(1, true), badPayload}
	case "nocount":
		m = ttlv.Struct{hdr(0, false), good}
	default:
		panic("undecodableRequest: unknown kind " + kind)
	}
	return ttlv.MarshalTTLV(ttlv.Value{Tag: kmip.TagRequestMessage, Value: m})
}

func reqBytes(ids ...string) []byte {
	var pls []kmip.OperationPayload
	for _, id := range ids {
		pls = append(pls, &payloads.ActivateRequestPayload{UniqueIdentifier: id})
	}
	msg := kmip.NewRequestMessage(kmip.V1_4, pls...)
	for i := range msg.BatchItem {
		msg.BatchItem[i].UniqueBatchItemID = []byte(ids[i])
	}
	return ttlv.MarshalTTLV(&msg)
}

// Op is one step of a scripted client connection.
type Op struct {
	K    string   // W write request(s), H write first half of a request, G garbage, B too big header, R read+check responses, C close, S half-close, O open gate, D decode-failing frame
	IDs  []string // for W/H: one message with these items; for R: the request ids whose responses are expected (one message each)
	Gate string
}

func W(ids ...string) Op { return Op{K: "W", IDs: ids} }
func R(ids ...string) Op { return Op{K: "R", IDs: ids} }

var (
	OpClose   = Op{K: "C"}
	OpEOF     = Op{K: "E"} // expect end of stream (server closed the connection)
	OpGarbage = Op{K: "G"}
	OpTooBig  = Op{K: "B"}
	OpUndecod = Op{K: "D"}
	OpInvalid = Op{K: "I"} // expect exactly one invalid-message response
)

// srvSizes: request sizes for the size-history scenarios (ratio about 1.26, around and above the 512-byte initial receive buffer).
var srvSizes = []int{200, 600, 760, 960, 1200, 1500, 1900, 2400}

type SrvCfg struct {
	Conns    [][]Op
	PipeCap  int
	Gates    []string
	NoShut   bool
	ConnHook string // "", "ok", "fail"
}

type srvWorld struct {
	cfg      SrvCfg
	lis      *Listener
	srv      *kmipserver.Server
	gates    map[string]*mc.Var[bool]
	handlers mc.Var[int] // number of handler invocations in progress
	log      mc.Log
}

func (w *srvWorld) handler(ctx context.Context, req *payloads.ActivateRequestPayload) (*payloads.ActivateResponsePayload, error) {
	id := req.UniqueIdentifier
	switch {
	case strings.HasPrefix(id, "ok"):
	case strings.HasPrefix(id, "terr"):
		return nil, kmipserver.Errorf(kmip.ResultReasonItemNotFound, "no such object")
	case strings.HasPrefix(id, "perr"):
		return nil, errors.New("plain failure")
	case strings.HasPrefix(id, "panicS"):
		panic("string panic")
	case strings.HasPrefix(id, "panicE"):
		panic(errors.New("error panic"))
	case strings.HasPrefix(id, "panicT"):
		panic(stringer{})
	case strings.HasPrefix(id, "panicX"):
		panic(struct{ A int }{7})
	case strings.HasPrefix(id, "panicN"):
		var p *int
		_ = *p
	case strings.HasPrefix(id, "slow"):
		g := w.gates[id]
		if g != nil {
			g.Await(true)
		}
	}
	return &payloads.ActivateResponsePayload{UniqueIdentifier: id}, nil
}

func expectStatus(id string) kmip.ResultStatus {
	if strings.HasPrefix(id, "ok") || strings.HasPrefix(id, "slow") {
		return kmip.ResultStatusSuccess
	}
	return kmip.ResultStatusOperationFailed
}

// runScript plays one scripted client connection and checks what it reads.
func (w *srvWorld) runScript(name string, ops []Op) {
	c := w.lis.Dial(name)
	if c == nil {
		mc.Failf("dial-refused: %s could not connect", name)
		return
	}
	closed := false
	var partial []byte
	for oi, op := range ops {
		switch op.K {
		case "W":
			_, _ = c.Write(reqBytes(op.IDs...))
		case "Z": // a request whose size is an environment choice (size history on one connection), then its response
			sz := srvSizes[mc.ChooseFree(name+".reqsize", len(srvSizes))]
			id := op.IDs[0]
			if n := sz - len(reqBytes(id)); n > 0 {
				id += strings.Repeat(".", n)
			}
			_, _ = c.Write(reqBytes(id))
			w.expectResponse(name, oi, c, []string{id})
		case "H":
			b := reqBytes(op.IDs...)
			_, _ = c.Write(b[:len(b)/2])
		case "4":
			b := reqBytes(op.IDs...)
			_, _ = c.Write(b[:4])
		case "8":
			b := reqBytes(op.IDs...)
			_, _ = c.Write(b[:8])
		case "N": // several messages in one write
			var b []byte
			for _, id := range op.IDs {
				b = append(b, reqBytes(id)...)
			}
			_, _ = c.Write(b)
		case "2": // two messages in one write
			b := append(reqBytes(op.IDs[0]), reqBytes(op.IDs[1])...)
			_, _ = c.Write(b)
		case "WB": // a request whose identifier is padded to about 5 KiB (the response echoes it: above 4 KiB)
			_, _ = c.Write(reqBytes(op.IDs[0] + strings.Repeat("-", 5000)))
		case "R8": // read only the 8-byte header of the response for now
			partial = make([]byte, 8)
			if _, err := io.ReadFull(c, partial); err != nil {
				mc.Failf("missing-response: %s op %d: no response header: %v", name, oi, err)
				return
			}
		case "RB": // read the rest of the response whose header was read by R8 and check that it is this connection's own
			if len(partial) != 8 {
				mc.Failf("missing-response: %s op %d: no header read before", name, oi)
				return
			}
			ln := int(partial[4])<<24 | int(partial[5])<<16 | int(partial[6])<<8 | int(partial[7])
			rest := make([]byte, (ln+7)/8*8)
			if _, err := io.ReadFull(c, rest); err != nil {
				mc.Failf("missing-response: %s op %d: response body: %v", name, oi, err)
				return
			}
			var resp kmip.ResponseMessage
			want := op.IDs[0] + strings.Repeat("-", 5000)
			if err := ttlv.UnmarshalTTLV(append(append([]byte{}, partial...), rest...), &resp); err != nil || len(resp.BatchItem) != 1 {
				mc.Failf("undecodable-response: %s op %d: %v", name, oi, err)
				return
			}
			if pl, ok := resp.BatchItem[0].ResponsePayload.(*payloads.ActivateResponsePayload); !ok || pl.UniqueIdentifier != want || string(resp.BatchItem[0].UniqueBatchItemID) != want {
				mc.Failf("wrong-payload: %s op %d: the response read in two parts is not the answer to this connection's request", name, oi)
				return
			}
			partial = nil
		case "Q": // a decodable request that the server must refuse as a whole or item by item: exactly one response, no success
			msg := kmip.NewRequestMessage(kmip.V1_4, &payloads.ActivateRequestPayload{UniqueIdentifier: "ok-odd"})
			switch op.IDs[0] {
			case "count-negative":
				msg.Header.BatchCount = -1
			case "count-min":
				msg.Header.BatchCount = -2147483648
			case "count-more":
				msg.Header.BatchCount = 3
			case "count-zero":
				msg.Header.BatchCount = 0
			case "version-unsupported":
				msg.Header.ProtocolVersion = kmip.ProtocolVersion{ProtocolVersionMajor: 9, ProtocolVersionMinor: 9}
			case "version-zero":
				msg.Header.ProtocolVersion = kmip.ProtocolVersion{}
			case "undo":
				msg.Header.BatchErrorContinuationOption = kmip.BatchErrorContinuationOptionUndo
			case "unrouted":
				msg = kmip.NewRequestMessage(kmip.V1_4, &payloads.RevokeRequestPayload{UniqueIdentifier: "x"})
			case "critical-ext":
				msg.BatchItem[0].MessageExtension = &kmip.MessageExtension{VendorIdentification: "v", CriticalityIndicator: true}
			case "max-response-size-negative":
				msg.Header.MaximumResponseSize = -1
			case "count-one-no-items": // the header announces one item, the message carries none
				msg.BatchItem = nil
			case "count-two-no-items":
				msg.BatchItem, msg.Header.BatchCount = nil, 2
			case "count-one-two-items":
				msg.BatchItem = append(msg.BatchItem, msg.BatchItem[0])
			}
			_, _ = c.Write(ttlv.MarshalTTLV(&msg))
			fr, err := c.RecvFrame()
			if err != nil {
				mc.Failf("missing-response: %s op %d: refused request %q got no response: %v", name, oi, op.IDs[0], err)
				return
			}
			var resp kmip.ResponseMessage
			if err := ttlv.UnmarshalTTLV(fr, &resp); err != nil || len(resp.BatchItem) == 0 {
				mc.Failf("undecodable-response: %s op %d: response to refused request %q: %v", name, oi, op.IDs[0], err)
				return
			}
			if op.IDs[0] != "max-response-size-negative" {
				for _, bi := range resp.BatchItem {
					if bi.ResultStatus == kmip.ResultStatusSuccess {
						mc.Failf("wrong-status: %s op %d: request %q must be refused but an item succeeded", name, oi, op.IDs[0])
						return
					}
				}
			}
		case "P": // a well-formed *response* message sent by the client: the server ignores it and keeps serving
			resp := kmip.ResponseMessage{Header: kmip.ResponseHeader{ProtocolVersion: kmip.V1_4, BatchCount: 1},
				BatchItem: []kmip.ResponseBatchItem{{Operation: kmip.OperationActivate, ResponsePayload: &payloads.ActivateResponsePayload{UniqueIdentifier: "stray"}}}}
			_, _ = c.Write(ttlv.MarshalTTLV(&resp))
		case "G":
			_, _ = c.Write([]byte{0x42, 0x00, 0x78, 0xFF, 0, 0, 0, 8, 1, 2, 3, 4, 5, 6, 7, 8})
		case "D": // correctly framed structure that is not a decodable request
			if len(op.IDs) > 0 {
				_, _ = c.Write(undecodableRequest(op.IDs[0]))
				break
			}
			_, _ = c.Write([]byte{0x42, 0x00, 0x78, 0x01, 0, 0, 0, 16, 0x42, 0x00, 0x77, 0x02, 0, 0, 0, 4, 0, 0, 0, 1, 0, 0, 0, 0})
		case "B":
			_, _ = c.Write([]byte{0x42, 0x00, 0x78, 0x01, 0x00, 0x20, 0x00, 0x00})
		case "R":
			for _, id := range op.IDs {
				w.expectResponse(name, oi, c, strings.Split(id, "+"))
			}
		case "I":
			fr, err := c.RecvFrame()
			if err != nil {
				mc.Failf("no-invalid-message-response: %s op %d: %v", name, oi, err)
				return
			}
			var resp kmip.ResponseMessage
			if err := ttlv.UnmarshalTTLV(fr, &resp); err != nil || len(resp.BatchItem) != 1 ||
				resp.BatchItem[0].ResultStatus != kmip.ResultStatusOperationFailed || resp.BatchItem[0].ResultReason != kmip.ResultReasonInvalidMessage {
				mc.Failf("bad-invalid-message-response: %s op %d: err=%v items=%d", name, oi, err, len(resp.BatchItem))
				return
			}
		case "E":
			buf := make([]byte, 8)
			n, err := c.Read(buf)
			if n != 0 || err == nil {
				mc.Failf("extra-data: %s op %d: expected end of stream, read %d bytes", name, oi, n)
				return
			}
		case "RO": // after a half-close: zero or one (correct) response, then end of stream
			fr, err := c.RecvFrame()
			if err == nil {
				var resp kmip.ResponseMessage
				if err := ttlv.UnmarshalTTLV(fr, &resp); err != nil || len(resp.BatchItem) != 1 || string(resp.BatchItem[0].UniqueBatchItemID) != op.IDs[0] {
					mc.Failf("wrong-response-order: %s op %d: unexpected response after half-close", name, oi)
					return
				}
				if _, err := c.RecvFrame(); err == nil {
					mc.Failf("extra-data: %s op %d: second response after half-close", name, oi)
					return
				}
			}
		case "O":
			w.gates[op.Gate].Store(true)
		case "A": // wait until another script opens the gate
			w.gates[op.Gate].Await(true)
		case "S":
			_ = c.CloseWrite()
		case "C":
			_ = c.Close()
			closed = true
		}
	}
	if !closed {
		_ = c.Close()
	}
}

func (w *srvWorld) expectResponse(name string, oi int, c *Conn, ids []string) {
	fr, err := c.RecvFrame()
	if err != nil {
		mc.Failf("missing-response: %s op %d: expected response to %v, got %v", name, oi, ids, err)
		return
	}
	var resp kmip.ResponseMessage
	if err := ttlv.UnmarshalTTLV(fr, &resp); err != nil {
		mc.Failf("undecodable-response: %s op %d: %v", name, oi, err)
		return
	}
	if int(resp.Header.BatchCount) != len(ids) || len(resp.BatchItem) != len(ids) {
		mc.Failf("wrong-item-count: %s op %d: want %d items got %d (count %d)", name, oi, len(ids), len(resp.BatchItem), resp.Header.BatchCount)
		return
	}
	for i, id := range ids {
		bi := resp.BatchItem[i]
		if string(bi.UniqueBatchItemID) != id {
			mc.Failf("wrong-response-order: %s op %d: item %d answers %q, expected %q", name, oi, i, bi.UniqueBatchItemID, id)
			return
		}
		if bi.ResultStatus != expectStatus(id) {
			mc.Failf("wrong-status: %s op %d: item %q has status %v", name, oi, id, bi.ResultStatus)
			return
		}
		if bi.ResultStatus == kmip.ResultStatusSuccess {
			pl, ok := bi.ResponsePayload.(*payloads.ActivateResponsePayload)
			if !ok || pl.UniqueIdentifier != id {
				mc.Failf("wrong-payload: %s op %d: item %q", name, oi, id)
				return
			}
		}
	}
}

func serverScenario(cfg SrvCfg) func() {
	return func() {
		resetPackages()
		w := &srvWorld{cfg: cfg, lis: &Listener{Cap: cfg.PipeCap}, gates: map[string]*mc.Var[bool]{}}
		for _, g := range cfg.Gates {
			w.gates[g] = &mc.Var[bool]{}
		}
		exec := kmipserver.NewBatchExecutor()
		exec.Route(kmip.OperationActivate, kmipserver.HandleFunc(w.handler))
		w.srv = kmipserver.NewServer(w.lis, exec)
		if cfg.ConnHook != "" {
			w.srv = w.srv.WithConnectHook(func(ctx context.Context) (context.Context, error) {
				if cfg.ConnHook == "fail" {
					return nil, errors.New("connect hook refuses the connection")
				}
				return ctx, nil
			})
		}
		var serveRet mc.Var[int]
		mc.GoNamed("serve", func() {
			err := w.srv.Serve()
			if errors.Is(err, kmipserver.ErrShutdown) {
				serveRet.Store(1)
			} else {
				serveRet.Store(2)
			}
		})
		done := make([]*mc.Var[bool], len(cfg.Conns))
		for i, ops := range cfg.Conns {
			i, ops := i, ops
			done[i] = &mc.Var[bool]{}
			mc.GoNamed(fmt.Sprintf("client%d", i), func() {
				w.runScript(fmt.Sprintf("c%d", i), ops)
				done[i].Store(true)
			})
		}
		for _, d := range done {
			d.Await(true)
		}
		if cfg.NoShut {
			return
		}
		_ = w.srv.Shutdown()
		serveRet.Await(1)
	}
}

func init() {
	srv := func(name, doc string, cfg SrvCfg) {
		register(name, func() *Scenario { return &Scenario{Name: name, Doc: doc, Body: serverScenario(cfg)} })
	}
	srv("srv-req-read-close", "one request, read its response, close", SrvCfg{Conns: [][]Op{{W("ok1"), R("ok1"), OpClose}}})
	srv("srv-req-close", "one request, close without reading (disconnect while the response is produced/written)", SrvCfg{Conns: [][]Op{{W("ok1"), OpClose}}})
	srv("srv-req-close-smallpipe", "one request into a 16-byte pipe nobody reads, then close (write loop blocked mid-response)", SrvCfg{PipeCap: 16, Conns: [][]Op{{W("ok1"), OpClose}}})
	srv("srv-size-history", "three sequential requests whose sizes are chosen from 8 sizes each (all 512 size histories), then a second connection is served", SrvCfg{Conns: [][]Op{{{K: "Z", IDs: []string{"ok1"}}, {K: "Z", IDs: []string{"ok2"}}, {K: "Z", IDs: []string{"ok3"}}, OpClose}}})
	srv("srv-stray-response", "the client sends a well-formed response message (ignored by the server), then a request that must be answered, then another stray response and a request", SrvCfg{Conns: [][]Op{{{K: "P"}, W("ok1"), R("ok1"), {K: "P"}, {K: "P"}, W("terr2"), R("terr2"), OpClose}}})
	srv("srv-hookfail-req", "the connect hook refuses the connection; the client sends a request all the same and must see the connection closed, nothing may stay behind", SrvCfg{ConnHook: "fail", Conns: [][]Op{{W("ok1"), OpEOF}}})
	srv("srv-hookfail-2conn", "two refused connections, one sending a request and waiting for the end of stream, one closing at once", SrvCfg{ConnHook: "fail", Conns: [][]Op{{W("ok1"), OpEOF}, {OpClose}}})
	srv("srv-hookok-seq", "accepting connect hook, two sequential requests", SrvCfg{ConnHook: "ok", Conns: [][]Op{{W("ok1"), R("ok1"), W("perr2"), R("perr2"), OpClose}}})
	srv("srv-2conn-cold", "two connections send their first request concurrently into a server whose codec caches are cold (meant for the build that instruments the codec package too)", SrvCfg{Conns: [][]Op{{W("ok1"), R("ok1"), OpClose}, {W("ok2"), R("ok2"), OpClose}}})
	srv("srv-3conn-cold", "three connections send their first request concurrently, cold codec caches", SrvCfg{Conns: [][]Op{{W("ok1"), R("ok1"), OpClose}, {W("terr2"), R("terr2"), OpClose}, {W("ok3"), R("ok3"), OpClose}}})
	odd := func(k string) Op { return Op{K: "Q", IDs: []string{k}} }
	srv("srv-refused-requests-a", "decodable requests the server must refuse (negative / minimal / larger / zero batch count, unsupported and absent version), each answered once, then a good request", SrvCfg{Conns: [][]Op{{odd("count-negative"), odd("count-min"), odd("count-more"), odd("count-zero"), odd("version-unsupported"), odd("version-zero"), W("ok1"), R("ok1"), OpClose}}})
	srv("srv-refused-requests-b", "decodable requests the server must refuse (Undo option, unrouted operation, critical extension, negative maximum response size), then a good request", SrvCfg{Conns: [][]Op{{odd("undo"), odd("unrouted"), odd("critical-ext"), odd("max-response-size-negative"), W("ok1"), R("ok1"), OpClose}}})
	srv("srv-2conn-big-slow-reader", "two connections with responses above 4 KiB through a 4 KiB pipe: A reads the header of its response and waits; B is served completely; then A reads the rest, which must still be its own response",
		SrvCfg{PipeCap: 4096, Gates: []string{"b-done"}, Conns: [][]Op{
			{{K: "WB", IDs: []string{"okA"}}, {K: "R8"}, {K: "A", Gate: "b-done"}, {K: "RB", IDs: []string{"okA"}}, OpClose},
			{{K: "WB", IDs: []string{"okB"}}, {K: "R8"}, {K: "RB", IDs: []string{"okB"}}, {K: "O", Gate: "b-done"}, OpClose}}})
	srv("srv-two-seq", "two sequential requests on one connection", SrvCfg{Conns: [][]Op{{W("ok1"), R("ok1"), W("terr2"), R("terr2"), OpClose}}})
	srv("srv-pipelined", "two requests in one write, then read both", SrvCfg{Conns: [][]Op{{{K: "2", IDs: []string{"ok1", "perr2"}}, R("ok1", "perr2"), OpClose}}})
	srv("srv-3pipelined-close", "three requests written back to back, then close without reading anything (requests still queued in the connection when it ends)", SrvCfg{Conns: [][]Op{{W("ok1"), W("ok2"), W("ok3"), OpClose}}})
	srv("srv-4pipelined-read1-close", "four requests in one write, read the first response, then close", SrvCfg{Conns: [][]Op{{{K: "N", IDs: []string{"ok1", "ok2", "ok3", "ok4"}}, R("ok1"), OpClose}}})
	srv("srv-panics", "batch whose handlers panic with string/error/Stringer/struct/nil-deref values", SrvCfg{Conns: [][]Op{{W("panicS1", "panicE2", "panicT3", "panicX4", "panicN5", "ok6"), R("panicS1+panicE2+panicT3+panicX4+panicN5+ok6"), OpClose}}})
	srv("srv-half-then-close", "half a request then close", SrvCfg{Conns: [][]Op{{{K: "H", IDs: []string{"ok1"}}, OpClose}}})
	srv("srv-4bytes-then-close", "4 bytes then close", SrvCfg{Conns: [][]Op{{{K: "4", IDs: []string{"ok1"}}, OpClose}}})
	srv("srv-garbage", "invalid type byte: framed garbage gets one invalid-message response, then the stream ends", SrvCfg{Conns: [][]Op{{OpGarbage, OpInvalid, OpEOF}}})
	srv("srv-undecodable", "well-framed but undecodable message gets one invalid-message response, then the stream ends", SrvCfg{Conns: [][]Op{{OpUndecod, OpInvalid, OpEOF}}})
	for _, k := range []string{"item", "item2", "payload", "nocount", "short-count", "short-major", "short-operation", "short-timestamp"} {
		srv("srv-undecodable-"+k, "a good header followed by something undecodable ("+k+"): one invalid-message response, then the stream ends", SrvCfg{Conns: [][]Op{{{K: "D", IDs: []string{k}}, OpInvalid, OpEOF}}})
	}
	srv("srv-refused-requests-c", "requests whose header announces items the message does not carry (one / two announced, none present; one announced, two present), each answered once, then a good request", SrvCfg{Conns: [][]Op{{odd("count-one-no-items"), odd("count-two-no-items"), odd("count-one-two-items"), W("ok1"), R("ok1"), OpClose}}})
	srv("srv-toobig", "header announcing 2 MiB gets one invalid-message response, then the stream ends", SrvCfg{Conns: [][]Op{{OpTooBig, OpInvalid, OpEOF}}})
	srv("srv-req-then-garbage", "valid request answered, then garbage answered once", SrvCfg{Conns: [][]Op{{W("ok1"), R("ok1"), OpGarbage, OpInvalid, OpEOF}}})
	srv("srv-slow-close", "client disconnects while the handler is running; gate opened after the close", SrvCfg{Gates: []string{"slow1"}, Conns: [][]Op{{W("slow1"), OpClose, {K: "O", Gate: "slow1"}}}})
	srv("srv-halfclose", "request then half-close (treated as a disconnect by the server): at most one, correct, response, then end of stream", SrvCfg{Conns: [][]Op{{W("ok1"), {K: "S"}, {K: "RO", IDs: []string{"ok1"}}, OpClose}}})
	srv("srv-2conn-good-bad", "a well-behaved connection next to one sending garbage and closing", SrvCfg{Conns: [][]Op{{W("ok1"), R("ok1"), OpClose}, {OpGarbage, OpClose}}})
	srv("srv-2conn-good-abrupt", "a well-behaved connection next to one closing without reading", SrvCfg{Conns: [][]Op{{W("ok1"), R("ok1"), OpClose}, {W("panicS9"), OpClose}}})
	srv("srv-3conn", "three connections: good, abrupt, half message", SrvCfg{Conns: [][]Op{{W("ok1"), R("ok1"), OpClose}, {W("ok2"), OpClose}, {{K: "H", IDs: []string{"ok3"}}, OpClose}}})
}
