//go:build verifmc && !verifmc_codec && !verifmc_all

package scen

import (
	"github.com/ovh/kmip-go/kmipclient"
	"github.com/ovh/kmip-go/kmipserver"
)

// resetPackages puts the package-level state of the instrumented packages (free lists, caches, package-level
// channels) back to what a fresh process has, so that executions do not depend on each other.
func resetPackages() {
	kmipserver.ZZVerifReset()
	kmipclient.ZZVerifReset()
}
