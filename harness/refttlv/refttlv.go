// Package refttlv is an independent reader/writer of the KMIP TTLV binary format, written from the
// text of KMIP 1.4 §9.1. It shares no code with github.com/ovh/kmip-go/ttlv.
package refttlv

import (
	"bytes"
	"fmt"
	"math/big"
	"strings"
)

const (
	TStructure   = 1
	TInteger     = 2
	TLongInteger = 3
	TBigInteger  = 4
	TEnumeration = 5
	TBoolean     = 6
	TTextString  = 7
	TByteString  = 8
	TDateTime    = 9
	TInterval    = 10
)

// Node is one TTLV item. Scalars: I holds Integer/LongInteger/Enumeration(unsigned)/Boolean(0,1)/
// DateTime(seconds)/Interval(seconds); Big holds BigInteger; S holds Text/Byte string bytes.
type Node struct {
	Tag  uint32
	Type byte
	I    int64
	Big  *big.Int
	S    []byte
	Kids []*Node
}

func (n *Node) String() string {
	var sb strings.Builder
	n.write(&sb)
	return sb.String()
}

func (n *Node) write(sb *strings.Builder) {
	fmt.Fprintf(sb, "(%06X t%d ", n.Tag, n.Type)
	switch n.Type {
	case TStructure:
		for _, k := range n.Kids {
			k.write(sb)
		}
	case TBigInteger:
		sb.WriteString(n.Big.String())
	case TTextString, TByteString:
		fmt.Fprintf(sb, "%x", n.S)
	default:
		fmt.Fprintf(sb, "%d", n.I)
	}
	sb.WriteString(")")
}

func Equal(a, b *Node) bool {
	if a.Tag != b.Tag || a.Type != b.Type || len(a.Kids) != len(b.Kids) {
		return false
	}
	switch a.Type {
	case TStructure:
		for i := range a.Kids {
			if !Equal(a.Kids[i], b.Kids[i]) {
				return false
			}
		}
		return true
	case TBigInteger:
		return a.Big.Cmp(b.Big) == 0
	case TTextString, TByteString:
		return bytes.Equal(a.S, b.S)
	}
	return a.I == b.I
}

func pad8(n int) int { return (n + 7) / 8 * 8 }

// twos returns the minimal two's complement representation of v, sign-extended to a multiple of 8 bytes.
func twos(v *big.Int) []byte {
	// find the smallest n (multiple of 8 bytes) such that -2^(8n-1) <= v < 2^(8n-1)
	n := 8
	for {
		lim := new(big.Int).Lsh(big.NewInt(1), uint(8*n-1))
		neg := new(big.Int).Neg(lim)
		if v.Cmp(neg) >= 0 && v.Cmp(lim) < 0 {
			break
		}
		n += 8
	}
	x := new(big.Int).Set(v)
	if x.Sign() < 0 {
		x.Add(x, new(big.Int).Lsh(big.NewInt(1), uint(8*n)))
	}
	b := x.Bytes()
	out := make([]byte, n)
	copy(out[n-len(b):], b)
	return out
}

func fromTwos(b []byte) *big.Int {
	x := new(big.Int).SetBytes(b)
	if len(b) > 0 && b[0]&0x80 != 0 {
		x.Sub(x, new(big.Int).Lsh(big.NewInt(1), uint(8*len(b))))
	}
	return x
}

// Generate writes the canonical encoding of the tree.
func Generate(n *Node) []byte {
	var out []byte
	hdr := func(l int) {
		out = append(out, byte(n.Tag>>16), byte(n.Tag>>8), byte(n.Tag), n.Type, byte(l>>24), byte(l>>16), byte(l>>8), byte(l))
	}
	be := func(v uint64, w int) {
		for i := w - 1; i >= 0; i-- {
			out = append(out, byte(v>>(8*uint(i))))
		}
	}
	switch n.Type {
	case TStructure:
		var body []byte
		for _, k := range n.Kids {
			body = append(body, Generate(k)...)
		}
		hdr(len(body))
		out = append(out, body...)
	case TInteger, TEnumeration, TInterval:
		hdr(4)
		be(uint64(uint32(n.I)), 4)
		be(0, 4)
	case TLongInteger, TDateTime:
		hdr(8)
		be(uint64(n.I), 8)
	case TBoolean:
		hdr(8)
		be(uint64(n.I), 8)
	case TBigInteger:
		b := twos(n.Big)
		hdr(len(b))
		out = append(out, b...)
	case TTextString, TByteString:
		hdr(len(n.S))
		out = append(out, n.S...)
		for i := len(n.S); i < pad8(len(n.S)); i++ {
			out = append(out, 0)
		}
	default:
		panic("refttlv: bad type")
	}
	return out
}

// ParseStrict parses exactly one item occupying the whole buffer and enforces every rule of the wire format.
func ParseStrict(b []byte) (*Node, error) {
	n, used, err := parse(b, true, 0)
	if err != nil {
		return nil, err
	}
	if used != len(b) {
		return nil, fmt.Errorf("trailing %d bytes after top-level item", len(b)-used)
	}
	return n, nil
}

// ParseExtent parses one item at the start of the buffer checking only that every item lies inside
// its parent's declared extent (and the buffer). Trailing bytes after the item are allowed.
// Lenient about value widths: scalars are read from the leading bytes that exist.
func ParseExtent(b []byte) (*Node, int, error) {
	return parse(b, false, 0)
}

func parse(b []byte, strict bool, depth int) (*Node, int, error) {
	if len(b) < 8 {
		return nil, 0, fmt.Errorf("header truncated: %d bytes", len(b))
	}
	n := &Node{Tag: uint32(b[0])<<16 | uint32(b[1])<<8 | uint32(b[2]), Type: b[3]}
	l := int(uint32(b[4])<<24 | uint32(b[5])<<16 | uint32(b[6])<<8 | uint32(b[7]))
	if n.Type < 1 || n.Type > 10 {
		return nil, 0, fmt.Errorf("type %d out of range at tag %06X", n.Type, n.Tag)
	}
	pl := pad8(l)
	if len(b)-8 < pl {
		return nil, 0, fmt.Errorf("value of %06X needs %d bytes, %d available", n.Tag, pl, len(b)-8)
	}
	v := b[8 : 8+l]
	padding := b[8+l : 8+pl]
	u := func(x []byte) uint64 {
		var r uint64
		for _, c := range x {
			r = r<<8 | uint64(c)
		}
		return r
	}
	fixed := map[byte]int{TInteger: 4, TLongInteger: 8, TEnumeration: 4, TBoolean: 8, TDateTime: 8, TInterval: 4}
	if w, ok := fixed[n.Type]; ok {
		if l != w {
			if strict {
				return nil, 0, fmt.Errorf("type %d at %06X must have length %d, has %d", n.Type, n.Tag, w, l)
			}
			if l < w {
				return nil, 0, fmt.Errorf("type %d at %06X: length %d shorter than width %d", n.Type, n.Tag, l, w)
			}
		}
	}
	if strict {
		for _, c := range padding {
			if c != 0 {
				return nil, 0, fmt.Errorf("non-zero padding at %06X", n.Tag)
			}
		}
	}
	switch n.Type {
	case TStructure:
		if strict && l%8 != 0 {
			return nil, 0, fmt.Errorf("structure %06X length %d not multiple of 8", n.Tag, l)
		}
		off := 0
		for off < l {
			k, used, err := parse(v[off:], strict, depth+1)
			if err != nil {
				return nil, 0, fmt.Errorf("in %06X@%d: %w", n.Tag, off, err)
			}
			n.Kids = append(n.Kids, k)
			off += used
		}
		if off != l {
			return nil, 0, fmt.Errorf("children of %06X overrun: %d != %d", n.Tag, off, l)
		}
	case TInteger:
		n.I = int64(int32(u(v[:4])))
	case TEnumeration, TInterval:
		n.I = int64(u(v[:4]))
	case TLongInteger, TDateTime:
		n.I = int64(u(v[:8]))
	case TBoolean:
		x := u(v[:8])
		if strict && x > 1 {
			return nil, 0, fmt.Errorf("boolean %06X has value %d", n.Tag, x)
		}
		n.I = int64(x)
		if !strict && v[7] != 0 { // library reads the last byte only
			n.I = 1
		} else if !strict {
			n.I = 0
		}
	case TBigInteger:
		if strict && (l == 0 || l%8 != 0) {
			return nil, 0, fmt.Errorf("big integer %06X length %d not a positive multiple of 8", n.Tag, l)
		}
		if l == 0 {
			return nil, 0, fmt.Errorf("big integer %06X of length 0", n.Tag)
		}
		n.Big = fromTwos(v)
		if strict && !bytes.Equal(twos(n.Big), v) {
			return nil, 0, fmt.Errorf("big integer %06X not minimally sign-extended: %x", n.Tag, v)
		}
	case TTextString, TByteString:
		n.S = append([]byte{}, v...)
	}
	return n, 8 + pl, nil
}
