// Package codecops defines the codec operations shared by the C20 scenarios (controlled scheduler),
// the per-operation fresh-process references and the free-running -race pass. It does not import mc.
package codecops

import (
	"encoding/hex"
	"math/big"
	"sort"
	"time"

	"github.com/ovh/kmip-go"
	"github.com/ovh/kmip-go/payloads"
	"github.com/ovh/kmip-go/ttlv"
)

// Inputs of the decode operations: fixed byte strings (produced once by this library and pinned here as
// text so that building them does not warm any cache).
type Inputs struct{ BinReq12, XmlResp13, JsonCr14, BinCustA, XmlCustB, JsonCustC []byte }

var In *Inputs

// BuildInputs creates the decode inputs with the library itself (warms the caches: call ZZVerifReset / use a fresh process afterwards).
func BuildInputs() *Inputs {
	return &Inputs{
		BinReq12:  ttlv.MarshalTTLV(codecReq(kmip.V1_2, "q12")),
		XmlResp13: ttlv.MarshalXML(codecResp(kmip.V1_3, "r13")),
		JsonCr14:  ttlv.MarshalJSON(codecCreate(kmip.V1_4)),
		BinCustA:  ttlv.MarshalTTLV(codecCustom("a")),
		XmlCustB:  ttlv.MarshalXML(codecCustom("b")),
		JsonCustC: ttlv.MarshalJSON(codecCustom("c")),
	}
}

func Names() []string {
	var r []string
	for k := range Ops {
		r = append(r, k)
	}
	sort.Strings(r)
	return r
}

func codecReq(v kmip.ProtocolVersion, corr string) *kmip.RequestMessage {
	ts := time.Unix(1700000000, 0)
	yes := true
	return &kmip.RequestMessage{
		Header: kmip.RequestHeader{ProtocolVersion: v, ClientCorrelationValue: corr, AttestationCapableIndicator: &yes, TimeStamp: &ts, BatchCount: 1},
		BatchItem: []kmip.RequestBatchItem{{Operation: kmip.OperationGet, RequestPayload: &payloads.GetRequestPayload{
			UniqueIdentifier: "id-" + corr, KeyWrapType: kmip.AsRegistered}}},
	}
}

func codecResp(v kmip.ProtocolVersion, corr string) *kmip.ResponseMessage {
	return &kmip.ResponseMessage{
		Header: kmip.ResponseHeader{ProtocolVersion: v, TimeStamp: time.Unix(1700000001, 0), ClientCorrelationValue: corr, BatchCount: 1},
		BatchItem: []kmip.ResponseBatchItem{{Operation: kmip.OperationLocate, ResultStatus: kmip.ResultStatusSuccess, ResponsePayload: &payloads.LocateResponsePayload{
			LocatedItems: func() *int32 { x := int32(2); return &x }(), UniqueIdentifier: []string{"a", "b"}}}},
	}
}

func codecCreate(v kmip.ProtocolVersion) *kmip.RequestMessage {
	ts := time.Unix(1700000002, 0)
	return &kmip.RequestMessage{
		Header: kmip.RequestHeader{ProtocolVersion: v, TimeStamp: &ts, BatchCount: 1},
		BatchItem: []kmip.RequestBatchItem{{Operation: kmip.OperationCreate, RequestPayload: &payloads.CreateRequestPayload{
			ObjectType: kmip.ObjectTypeSymmetricKey,
			TemplateAttribute: kmip.TemplateAttribute{Attribute: []kmip.Attribute{
				{AttributeName: kmip.AttributeNameCryptographicAlgorithm, AttributeValue: kmip.CryptographicAlgorithmAES},
				{AttributeName: kmip.AttributeNameCryptographicLength, AttributeValue: int32(256)},
				{AttributeName: kmip.AttributeNameCryptographicParameters, AttributeValue: kmip.CryptographicParameters{
					BlockCipherMode: kmip.BlockCipherModeGCM, TagLength: 16, SaltLength: func() *int32 { x := int32(8); return &x }()}},
			}},
		}}},
	}
}

// codecCustom: an Add Attribute request and a Create request whose attributes are custom (x-) ones and one with a name the
// library has no type for; the values differ per who (the generic holder of such values must not be shared between decodes).
func codecCustom(who string) *kmip.RequestMessage {
	ts := time.Unix(1700000004, 0)
	return &kmip.RequestMessage{
		Header: kmip.RequestHeader{ProtocolVersion: kmip.V1_4, TimeStamp: &ts, BatchCount: 2},
		BatchItem: []kmip.RequestBatchItem{
			{Operation: kmip.OperationAddAttribute, RequestPayload: &payloads.AddAttributeRequestPayload{UniqueIdentifier: "id-" + who,
				Attribute: kmip.Attribute{AttributeName: "x-owner", AttributeValue: "owner-of-" + who}}},
			{Operation: kmip.OperationCreate, RequestPayload: &payloads.CreateRequestPayload{ObjectType: kmip.ObjectTypeSymmetricKey,
				TemplateAttribute: kmip.TemplateAttribute{Attribute: []kmip.Attribute{
					{AttributeName: "x-label", AttributeValue: "label-" + who},
					{AttributeName: "y-count", AttributeValue: int32(len(who) + int(who[0]))},
					{AttributeName: "Vendor Thing", AttributeValue: ttlv.Value{Tag: kmip.TagAttributeValue, Value: ttlv.Struct{{Tag: 0x540001, Value: "thing-" + who}}}},
				}}}},
		},
	}
}

// codecKey: a Get response carrying a transparent EC private key whose scalar is the given big integer.
func codecKey(v kmip.ProtocolVersion, d string) *kmip.ResponseMessage {
	n, _ := new(big.Int).SetString(d, 16)
	return &kmip.ResponseMessage{
		Header: kmip.ResponseHeader{ProtocolVersion: v, TimeStamp: time.Unix(1700000003, 0), BatchCount: 1},
		BatchItem: []kmip.ResponseBatchItem{{Operation: kmip.OperationGet, ResultStatus: kmip.ResultStatusSuccess, ResponsePayload: &payloads.GetResponsePayload{
			ObjectType: kmip.ObjectTypePrivateKey, UniqueIdentifier: "k",
			Object: &kmip.PrivateKey{KeyBlock: kmip.KeyBlock{KeyFormatType: kmip.KeyFormatTypeTransparentECPrivateKey, CryptographicAlgorithm: kmip.CryptographicAlgorithmEC, CryptographicLength: 256,
				KeyValue: &kmip.KeyValue{Plain: &kmip.PlainKeyValue{KeyMaterial: kmip.KeyMaterial{TransparentECPrivateKey: &kmip.TransparentECPrivateKey{RecommendedCurve: kmip.RecommendedCurveP_256, D: *n}}}}}}}}},
	}
}

type CodecOp struct {
	Name string
	Run  func() string
}

func hx(b []byte) string { return hex.EncodeToString(b) }

func decReq(data []byte, f func([]byte, any) error) string {
	var m kmip.RequestMessage
	buf := append([]byte{}, data...)
	if err := f(buf, &m); err != nil {
		return "err:" + err.Error()
	}
	return hx(ttlv.MarshalTTLV(&m))
}
func decResp(data []byte, f func([]byte, any) error) string {
	var m kmip.ResponseMessage
	buf := append([]byte{}, data...)
	if err := f(buf, &m); err != nil {
		return "err:" + err.Error()
	}
	return hx(ttlv.MarshalTTLV(&m))
}


var Ops = map[string]func() string{
	"enc-req10-ttlv":  func() string { return hx(ttlv.MarshalTTLV(codecReq(kmip.V1_0, "q10"))) },
	"enc-req14-ttlv":  func() string { return hx(ttlv.MarshalTTLV(codecReq(kmip.V1_4, "q14"))) },
	"enc-resp14-xml":  func() string { return string(ttlv.MarshalXML(codecResp(kmip.V1_4, "r14"))) },
	"enc-resp12-json": func() string { return string(ttlv.MarshalJSON(codecResp(kmip.V1_2, "r12"))) },
	"enc-create11-xml": func() string { return string(ttlv.MarshalXML(codecCreate(kmip.V1_1))) },
	"enc-create14-ttlv": func() string { return hx(ttlv.MarshalTTLV(codecCreate(kmip.V1_4))) },
	"dec-req12-ttlv":  func() string { return decReq(In.BinReq12, ttlv.UnmarshalTTLV) },
	"dec-resp13-xml":  func() string { return decResp(In.XmlResp13, ttlv.UnmarshalXML) },
	"dec-create14-json": func() string { return decReq(In.JsonCr14, ttlv.UnmarshalJSON) },
	// malformed inputs (truncated in the middle of the batch item): the decoder must report an error, not panic
	"dec-trunc-req12-ttlv":   func() string { return decReq(In.BinReq12[:len(In.BinReq12)-20], ttlv.UnmarshalTTLV) },
	"dec-trunc-resp13-xml":   func() string { return decResp(In.XmlResp13[:len(In.XmlResp13)*2/3], ttlv.UnmarshalXML) },
	"dec-trunc-create14-json": func() string { return decReq(In.JsonCr14[:len(In.JsonCr14)*2/3], ttlv.UnmarshalJSON) },
	// transparent keys: big integers encoded by two threads at once must not mix
	"enc-eckey-a-ttlv": func() string {
		return hx(ttlv.MarshalTTLV(codecKey(kmip.V1_4, "80aaaaaaaaaaaaaaaaaaaaaaaaaaaaaaaaaaaaaaaaaaaaaaaaaaaaaaaaaaaaaa01")))
	},
	"enc-eckey-b-ttlv": func() string { return hx(ttlv.MarshalTTLV(codecKey(kmip.V1_4, "7f5555555555555555555555555555555555555555555555555555555555"))) },
	"enc-eckey-b-xml":  func() string { return string(ttlv.MarshalXML(codecKey(kmip.V1_3, "7f5555555555555555555555555555555555555555555555555555555555"))) },
	"enc-eckey-a-json": func() string {
		return string(ttlv.MarshalJSON(codecKey(kmip.V1_4, "80aaaaaaaaaaaaaaaaaaaaaaaaaaaaaaaaaaaaaaaaaaaaaaaaaaaaaaaaaaaaaa01")))
	},
	// custom and untyped attributes: decoded into generic values, which two decodes at once must not share
	"dec-custattr-a-ttlv": func() string { return decReq(In.BinCustA, ttlv.UnmarshalTTLV) },
	"dec-custattr-b-xml":  func() string { return decReq(In.XmlCustB, ttlv.UnmarshalXML) },
	"dec-custattr-c-json": func() string { return decReq(In.JsonCustC, ttlv.UnmarshalJSON) },
	"reuse-10-then-14": func() string {
		enc := ttlv.NewTTLVEncoder()
		enc.Any(codecReq(kmip.V1_0, "a"))
		first := hx(enc.Bytes())
		enc.Clear()
		enc.Any(codecReq(kmip.V1_4, "b"))
		return first + "/" + hx(enc.Bytes())
	},
	"reuse-14-then-10": func() string {
		enc := ttlv.NewXMLEncoder()
		enc.Any(codecResp(kmip.V1_4, "a"))
		first := string(enc.Bytes())
		enc.Clear()
		enc.Any(codecResp(kmip.V1_0, "b"))
		return first + "/" + string(enc.Bytes())
	},
}

