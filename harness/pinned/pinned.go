// Package pinned loads the committed reference tables under /verif/pinned (never written at check time).
package pinned

import (
	"encoding/json"
	"fmt"
	"os"
	"path/filepath"
	"strconv"
	"strings"
	"sync"

	"verifharness/vlib"
)

type Registry struct {
	Tags  map[string]int               `json:"tags"`
	Enums map[string]map[string]uint32 `json:"enums"`
	Masks map[string][]string          `json:"masks"`
}

func Path(name string) string { return filepath.Join(vlib.Root(), "pinned", name) }

var (
	once sync.Once
	reg  *Registry
	vf   map[string]map[string][2]int
	lerr error
)

func load() {
	once.Do(func() {
		b, err := os.ReadFile(Path("registry.json"))
		if err != nil {
			lerr = err
			return
		}
		reg = &Registry{}
		if err := json.Unmarshal(b, reg); err != nil {
			lerr = err
			return
		}
		b, err = os.ReadFile(Path("version_fields.json"))
		if err != nil {
			lerr = err
			return
		}
		raw := map[string]json.RawMessage{}
		if err := json.Unmarshal(b, &raw); err != nil {
			lerr = err
			return
		}
		vf = map[string]map[string][2]int{}
		for st, r := range raw {
			if strings.HasPrefix(st, "_") {
				continue
			}
			m := map[string]string{}
			if err := json.Unmarshal(r, &m); err != nil {
				lerr = err
				return
			}
			vf[st] = map[string][2]int{}
			for f, v := range m {
				p := strings.Split(v, ".")
				a, _ := strconv.Atoi(p[0])
				b, _ := strconv.Atoi(p[1])
				vf[st][f] = [2]int{a, b}
			}
		}
	})
	if lerr != nil {
		fmt.Fprintln(os.Stderr, "cannot load pinned tables:", lerr)
		os.Exit(2)
	}
}

func Reg() *Registry { load(); return reg }

// Introduced returns the version that introduces field f of structure st (0,0 if it is there from 1.0).
func Introduced(st, f string) ([2]int, bool) {
	load()
	v, ok := vf[st][f]
	return v, ok
}

// VersionFields returns the whole table.
func VersionFields() map[string]map[string][2]int { load(); return vf }
