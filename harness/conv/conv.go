// Package conv maps between refttlv trees and the library's generic ttlv.Value.
package conv

import (
	"fmt"
	"math/big"
	"time"

	"github.com/ovh/kmip-go/ttlv"
	"verifharness/refttlv"
)

func ToValue(n *refttlv.Node) ttlv.Value { return toValue(n, false) }

// ToValueNil is ToValue with every empty structure and empty byte string held the way Go's zero values hold them:
// a nil ttlv.Struct and a nil []byte. They are the same KMIP values (present, of length 0).
func ToValueNil(n *refttlv.Node) ttlv.Value { return toValue(n, true) }

// HasEmpty reports whether the tree has an empty structure or an empty byte string.
func HasEmpty(n *refttlv.Node) bool {
	switch n.Type {
	case refttlv.TStructure:
		if len(n.Kids) == 0 {
			return true
		}
		for _, k := range n.Kids {
			if HasEmpty(k) {
				return true
			}
		}
	case refttlv.TByteString:
		return len(n.S) == 0
	}
	return false
}

func toValue(n *refttlv.Node, nilEmpty bool) ttlv.Value {
	v := ttlv.Value{Tag: int(n.Tag)}
	switch n.Type {
	case refttlv.TStructure:
		var s ttlv.Struct
		if !nilEmpty {
			s = ttlv.Struct{}
		}
		for _, k := range n.Kids {
			s = append(s, toValue(k, nilEmpty))
		}
		v.Value = s
	case refttlv.TInteger:
		v.Value = int32(n.I)
	case refttlv.TLongInteger:
		v.Value = n.I
	case refttlv.TBigInteger:
		v.Value = new(big.Int).Set(n.Big)
	case refttlv.TEnumeration:
		v.Value = ttlv.Enum(uint32(n.I))
	case refttlv.TBoolean:
		v.Value = n.I != 0
	case refttlv.TTextString:
		v.Value = string(n.S)
	case refttlv.TByteString:
		if nilEmpty && len(n.S) == 0 {
			v.Value = []byte(nil)
		} else {
			v.Value = append([]byte{}, n.S...)
		}
	case refttlv.TDateTime:
		v.Value = time.Unix(n.I, 0)
	case refttlv.TInterval:
		v.Value = time.Duration(n.I) * time.Second
	}
	return v
}

func FromValue(v ttlv.Value) (*refttlv.Node, error) {
	n := &refttlv.Node{Tag: uint32(v.Tag)}
	switch x := v.Value.(type) {
	case ttlv.Struct:
		n.Type = refttlv.TStructure
		for _, k := range x {
			kn, err := FromValue(k)
			if err != nil {
				return nil, err
			}
			n.Kids = append(n.Kids, kn)
		}
	case int32:
		n.Type, n.I = refttlv.TInteger, int64(x)
	case int64:
		n.Type, n.I = refttlv.TLongInteger, x
	case *big.Int:
		if x == nil {
			return nil, fmt.Errorf("nil big.Int")
		}
		n.Type, n.Big = refttlv.TBigInteger, x
	case ttlv.Enum:
		n.Type, n.I = refttlv.TEnumeration, int64(uint32(x))
	case bool:
		n.Type = refttlv.TBoolean
		if x {
			n.I = 1
		}
	case string:
		n.Type, n.S = refttlv.TTextString, []byte(x)
	case []byte:
		n.Type, n.S = refttlv.TByteString, x
	case time.Time:
		n.Type, n.I = refttlv.TDateTime, x.Unix()
	case time.Duration:
		n.Type, n.I = refttlv.TInterval, int64(x/time.Second)
	default:
		return nil, fmt.Errorf("unexpected dynamic type %T in ttlv.Value", v.Value)
	}
	return n, nil
}
