package checks

import (
	"bytes"
	"context"
	"crypto"
	"crypto/ecdh"
	"crypto/ed25519"
	"crypto/elliptic"
	"crypto/rsa"
	"crypto/x509"
	"encoding/hex"
	"fmt"
	"io"
	"math/big"
	"net"
	"reflect"
	"strings"
	"sync/atomic"
	"time"

	"github.com/ovh/kmip-go"
	"github.com/ovh/kmip-go/kmipclient"
	"github.com/ovh/kmip-go/payloads"
	"github.com/ovh/kmip-go/ttlv"
	"verifharness/msg"
	"verifharness/refttlv"
	"verifharness/vlib"
)

func init() { All["C12"] = Spec{"exploration", runC12} }

// respSpec describes one crafted server response.
type respSpec struct {
	mixed   []respSpec // when set: one spec per item (hc/ic taken from the outer spec)
	hc, ic  int        // header batch count, number of items
	op      int        // 0 same, 1 another implemented, 2 unregistered, 3 absent, 4 the first code after the implemented ones (0x2C), 5 a vendor code
	status  uint32
	reason  int // 0 absent, 1 ItemNotFound, 2 GeneralFailure, 3 PermissionDenied, 4 unnamed
	payload int // 0 absent, 1 right type, 2 another operation's type, 3 opaque
	message string
}

func (r respSpec) String() string {
	if len(r.mixed) > 0 {
		var parts []string
		for i, m := range r.mixed {
			parts = append(parts, fmt.Sprintf("item%d{%s}", i, m.String()))
		}
		return fmt.Sprintf("header-count=%d ", r.hc) + strings.Join(parts, " ")
	}
	return fmt.Sprintf("header-count=%d items=%d op=%s status=%d reason=%s payload=%s message=%q", r.hc, r.ic,
		[]string{"same", "another", "unregistered", "absent", "first-after-implemented", "vendor-code"}[r.op], r.status, []string{"absent", "ItemNotFound", "GeneralFailure", "PermissionDenied", "unnamed"}[r.reason],
		[]string{"absent", "right-type", "other-operation-type", "opaque"}[r.payload], r.message)
}

var reasonCodes = []uint32{0, uint32(kmip.ResultReasonItemNotFound), uint32(kmip.ResultReasonGeneralFailure), uint32(kmip.ResultReasonPermissionDenied), 0x7777}

func allRespSpecs() []respSpec {
	var out []respSpec
	for hc := 0; hc <= 2; hc++ {
		for ic := 0; ic <= 2; ic++ {
			for op := 0; op < 6; op++ {
				for _, st := range []uint32{0, 1, 2, 3, 7} {
					for rs := 0; rs < 5; rs++ {
						for pl := 0; pl < 4; pl++ {
							for _, m := range []string{"", "server says no"} {
								if ic == 0 && (op != 0 || st != 0 || rs != 0 || pl != 0 || m != "") {
									continue // nothing to vary without items
								}
								out = append(out, respSpec{hc: hc, ic: ic, op: op, status: st, reason: rs, payload: pl, message: m})
							}
						}
					}
				}
			}
		}
	}
	return out
}

var c12proj = &msg.Projector{Ver: [2]int{1, 4}, Gate: true}

func respPayloadTree(op kmip.Operation) *refttlv.Node {
	t, err := c12proj.Project(msg.BaselineResponse(op, kmip.V1_4))
	if err != nil {
		panic(err)
	}
	its := t.Kids[1].Kids
	return its[len(its)-2]
}

// craft builds the response bytes for the requested operations (one item spec applied to every item).
func craft(r respSpec, reqOps []kmip.Operation) []byte {
	var items []*refttlv.Node
	outer := r
	for i := 0; i < outer.ic; i++ {
		r := outer
		if len(outer.mixed) > 0 {
			r = outer.mixed[i]
		}
		reqOp := kmip.OperationActivate
		if i < len(reqOps) {
			reqOp = reqOps[i]
		} else if len(reqOps) > 0 {
			reqOp = reqOps[len(reqOps)-1]
		}
		other := kmip.OperationLocate
		if reqOp == kmip.OperationLocate {
			other = kmip.OperationGet
		}
		var kids []*refttlv.Node
		wireOp := reqOp
		switch r.op {
		case 1:
			wireOp = other
		case 2:
			wireOp = kmip.Operation(0x99)
		case 4:
			wireOp = kmip.Operation(0x2C)
		case 5:
			wireOp = kmip.Operation(0x80000001)
		}
		if r.op != 3 {
			kids = append(kids, nEnum(tg("Operation"), uint32(wireOp)))
		}
		kids = append(kids, nEnum(tg("ResultStatus"), r.status))
		if r.reason != 0 {
			kids = append(kids, nEnum(tg("ResultReason"), reasonCodes[r.reason]))
		}
		if r.message != "" {
			kids = append(kids, nText(tg("ResultMessage"), r.message))
		}
		switch r.payload {
		case 1:
			kids = append(kids, respPayloadTree(reqOp))
		case 2:
			kids = append(kids, respPayloadTree(other))
		case 3:
			kids = append(kids, nStruct(tg("ResponsePayload"), nText(tg("UniqueIdentifier"), "opaque"), nInt(0x540001, 1)))
		}
		items = append(items, nStruct(tg("BatchItem"), kids...))
	}
	hdr := nStruct(tg("ResponseHeader"),
		nStruct(tg("ProtocolVersion"), nInt(tg("ProtocolVersionMajor"), 1), nInt(tg("ProtocolVersionMinor"), 4)),
		&refttlv.Node{Tag: tg("TimeStamp"), Type: refttlv.TDateTime, I: 1700000000}, nInt(tg("BatchCount"), int64(outer.hc)))
	return refttlv.Generate(nStruct(tg("ResponseMessage"), append([]*refttlv.Node{hdr}, items...)...))
}

type c12client struct {
	cl      *kmipclient.Client
	current atomic.Pointer[respSpec]
	lastReq atomic.Pointer[kmip.RequestMessage]
}

// newC12WireClient: no stub - the crafted response bytes travel over an in-memory connection and go through the client's
// own receive path (framing, decoding, association with the call). A scripted server reads each request and writes the bytes
// crafted for the current spec; after a response that the client cannot decode the client re-dials and gets a new server.
func newC12WireClient(first *respSpec) (*c12client, error) {
	cc := &c12client{}
	cc.current.Store(first)
	dialer := func(ctx context.Context) (net.Conn, error) {
		a, b := net.Pipe()
		go func() {
			defer b.Close()
			st := ttlv.NewStream(b, 0)
			for {
				var req kmip.RequestMessage
				if err := st.Recv(&req); err != nil {
					return
				}
				var ops []kmip.Operation
				for _, bi := range req.BatchItem {
					ops = append(ops, bi.Operation)
				}
				if _, err := b.Write(craft(*cc.current.Load(), ops)); err != nil {
					return
				}
			}
		}()
		return a, nil
	}
	cl, err := kmipclient.DialContext(context.Background(), "wire", kmipclient.WithDialerUnsafe(dialer), kmipclient.EnforceVersion(kmip.V1_4))
	if err != nil {
		return nil, err
	}
	cc.cl = cl
	return cc, nil
}

func newC12Client(negotiate bool, first *respSpec, libmw ...bool) (*c12client, error) {
	cc := &c12client{}
	cc.current.Store(first)
	stub := func(next kmipclient.Next, ctx context.Context, req *kmip.RequestMessage) (*kmip.ResponseMessage, error) {
		cc.lastReq.Store(req)
		var ops []kmip.Operation
		for _, bi := range req.BatchItem {
			ops = append(ops, bi.Operation)
		}
		raw := craft(*cc.current.Load(), ops)
		resp := &kmip.ResponseMessage{}
		if err := ttlv.UnmarshalTTLV(raw, resp); err != nil {
			return nil, fmt.Errorf("undecodable response: %w", err) // what the connection would report
		}
		return resp, nil
	}
	dialer := func(ctx context.Context) (net.Conn, error) { a, _ := net.Pipe(); return a, nil }
	opts := []kmipclient.Option{kmipclient.WithDialerUnsafe(dialer)}
	if len(libmw) > 0 && libmw[0] {
		// the library's own middlewares in front of the stub: they see the raw response before the client validates it
		n := 0
		opts = append(opts, kmipclient.WithMiddlewares(
			kmipclient.CorrelationValueMiddleware(func() string { n++; return fmt.Sprint("corr-", n) }),
			kmipclient.TimeoutMiddleware(time.Minute),
			kmipclient.DebugMiddleware(io.Discard, nil),
			kmipclient.DebugMiddleware(io.Discard, ttlv.MarshalJSON)))
	}
	opts = append(opts, kmipclient.WithMiddlewares(stub))
	if !negotiate {
		opts = append(opts, kmipclient.EnforceVersion(kmip.V1_4))
	}
	cl, err := kmipclient.DialContext(context.Background(), "stub", opts...)
	if err != nil {
		return nil, err
	}
	cc.cl = cl
	return cc, nil
}

// failedItem marks a batch item that the client surfaced as an error.
type failedItem struct{}

func (failedItem) Operation() kmip.Operation { return 0 }

type c12call struct {
	perItem bool
	name    string
	ops     []kmip.Operation
	// run performs the call; returns the payloads it got as success (nil entries allowed) and the error
	run func(cl *kmipclient.Client) (pls []kmip.OperationPayload, err error)
}

func execCall(name string, op kmip.Operation, mk func(cl *kmipclient.Client) any) c12call {
	return c12call{name: name, ops: []kmip.Operation{op}, run: func(cl *kmipclient.Client) ([]kmip.OperationPayload, error) {
		ex := reflect.ValueOf(mk(cl))
		m := ex.MethodByName("ExecContext")
		if !m.IsValid() {
			panic("no ExecContext on " + ex.Type().String())
		}
		out := m.Call([]reflect.Value{reflect.ValueOf(context.Background())})
		if !out[1].IsNil() {
			return nil, out[1].Interface().(error)
		}
		if out[0].Kind() == reflect.Pointer && out[0].IsNil() {
			return []kmip.OperationPayload{nil}, nil
		}
		return []kmip.OperationPayload{out[0].Interface().(kmip.OperationPayload)}, nil
	}}
}

func c12Calls() []c12call {
	u := kmip.CryptographicUsageSign
	calls := []c12call{
		execCall("Activate", kmip.OperationActivate, func(cl *kmipclient.Client) any { return cl.Activate("id") }),
		execCall("AddAttribute", kmip.OperationAddAttribute, func(cl *kmipclient.Client) any { return cl.AddAttribute("id", kmip.AttributeNameComment, "c") }),
		execCall("Archive", kmip.OperationArchive, func(cl *kmipclient.Client) any { return cl.Archive("id") }),
		execCall("Recover", kmip.OperationRecover, func(cl *kmipclient.Client) any { return cl.Recover("id") }),
		execCall("Create", kmip.OperationCreate, func(cl *kmipclient.Client) any { return cl.Create().AES(256, kmip.CryptographicUsageEncrypt) }),
		execCall("CreateKeyPair", kmip.OperationCreateKeyPair, func(cl *kmipclient.Client) any { return cl.CreateKeyPair().RSA(2048, u, kmip.CryptographicUsageVerify) }),
		execCall("DeleteAttribute", kmip.OperationDeleteAttribute, func(cl *kmipclient.Client) any { return cl.DeleteAttribute("id", kmip.AttributeNameComment) }),
		execCall("Destroy", kmip.OperationDestroy, func(cl *kmipclient.Client) any { return cl.Destroy("id") }),
		execCall("Encrypt", kmip.OperationEncrypt, func(cl *kmipclient.Client) any { return cl.Encrypt("id").Data([]byte("d")) }),
		execCall("Decrypt", kmip.OperationDecrypt, func(cl *kmipclient.Client) any { return cl.Decrypt("id").Data([]byte("d")) }),
		execCall("Get", kmip.OperationGet, func(cl *kmipclient.Client) any { return cl.Get("id") }),
		execCall("GetAttributeList", kmip.OperationGetAttributeList, func(cl *kmipclient.Client) any { return cl.GetAttributeList("id") }),
		execCall("GetAttributes", kmip.OperationGetAttributes, func(cl *kmipclient.Client) any { return cl.GetAttributes("id", kmip.AttributeNameState) }),
		execCall("GetUsageAllocation", kmip.OperationGetUsageAllocation, func(cl *kmipclient.Client) any { return cl.GetUsageAllocation("id", 5) }),
		execCall("Import", kmip.OperationImport, func(cl *kmipclient.Client) any { return cl.Import("id", msg.Objects()[0]) }),
		execCall("Export", kmip.OperationExport, func(cl *kmipclient.Client) any { return cl.Export("id") }),
		execCall("Locate", kmip.OperationLocate, func(cl *kmipclient.Client) any { return cl.Locate() }),
		execCall("ModifyAttribute", kmip.OperationModifyAttribute, func(cl *kmipclient.Client) any { return cl.ModifyAttribute("id", kmip.AttributeNameComment, "x") }),
		execCall("ObtainLease", kmip.OperationObtainLease, func(cl *kmipclient.Client) any { return cl.ObtainLease("id") }),
		execCall("Query", kmip.OperationQuery, func(cl *kmipclient.Client) any { return cl.Query().All() }),
		execCall("Register", kmip.OperationRegister, func(cl *kmipclient.Client) any {
			return cl.Register().SymmetricKey(kmip.CryptographicAlgorithmAES, kmip.CryptographicUsageEncrypt, make([]byte, 16))
		}),
		execCall("Rekey", kmip.OperationReKey, func(cl *kmipclient.Client) any { return cl.Rekey("id") }),
		execCall("RekeyKeyPair", kmip.OperationReKeyKeyPair, func(cl *kmipclient.Client) any { return cl.RekeyKeyPair("id") }),
		execCall("Revoke", kmip.OperationRevoke, func(cl *kmipclient.Client) any { return cl.Revoke("id") }),
		execCall("Sign", kmip.OperationSign, func(cl *kmipclient.Client) any { return cl.Sign("id").Data([]byte("d")) }),
		execCall("SignatureVerify", kmip.OperationSignatureVerify, func(cl *kmipclient.Client) any {
			return cl.SignatureVerify("id").Data([]byte("d")).Signature([]byte("s"))
		}),
	}
	calls = append(calls,
		c12call{name: "Request", ops: []kmip.Operation{kmip.OperationActivate}, run: func(cl *kmipclient.Client) ([]kmip.OperationPayload, error) {
			p, err := cl.Request(context.Background(), &payloads.ActivateRequestPayload{UniqueIdentifier: "id"})
			return []kmip.OperationPayload{p}, err
		}},
		c12call{name: "Batch+Unwrap", ops: []kmip.Operation{kmip.OperationActivate, kmip.OperationGet}, run: func(cl *kmipclient.Client) ([]kmip.OperationPayload, error) {
			res, err := cl.Batch(context.Background(), &payloads.ActivateRequestPayload{UniqueIdentifier: "id"}, &payloads.GetRequestPayload{UniqueIdentifier: "id"})
			if err != nil {
				return nil, err
			}
			return res.Unwrap()
		}},
		c12call{name: "Batch(items)", ops: []kmip.Operation{kmip.OperationActivate, kmip.OperationGet}, perItem: true, run: func(cl *kmipclient.Client) ([]kmip.OperationPayload, error) {
			res, err := cl.Batch(context.Background(), &payloads.ActivateRequestPayload{UniqueIdentifier: "id"}, &payloads.GetRequestPayload{UniqueIdentifier: "id"})
			if err != nil {
				return nil, err
			}
			// what a caller sees item by item: an item is either an error or a success carrying a payload
			out := make([]kmip.OperationPayload, len(res))
			for i := range res {
				if res[i].Err() != nil {
					out[i] = failedItem{}
				} else {
					out[i] = res[i].ResponsePayload
				}
			}
			return out, nil
		}},
		c12call{name: "BatchExec", ops: []kmip.Operation{kmip.OperationActivate, kmip.OperationGet}, run: func(cl *kmipclient.Client) ([]kmip.OperationPayload, error) {
			res, err := cl.Activate("id").Then(func(c *kmipclient.Client) kmipclient.PayloadBuilder { return c.Get("id") }).ExecContext(context.Background())
			if err != nil {
				return nil, err
			}
			return res.Unwrap()
		}},
		c12call{name: "BatchExec(OnBatchErr=Stop)", ops: []kmip.Operation{kmip.OperationActivate, kmip.OperationGet}, run: func(cl *kmipclient.Client) ([]kmip.OperationPayload, error) {
			res, err := cl.Activate("id").Then(func(c *kmipclient.Client) kmipclient.PayloadBuilder { return c.Get("id") }).ExecContext(context.Background(), kmipclient.OnBatchErr(kmip.BatchErrorContinuationOptionStop))
			if err != nil {
				return nil, err
			}
			return res.Unwrap()
		}},
		c12call{name: "BatchExec3(OnBatchErr=Continue)", ops: []kmip.Operation{kmip.OperationActivate, kmip.OperationGet, kmip.OperationDestroy}, run: func(cl *kmipclient.Client) ([]kmip.OperationPayload, error) {
			res, err := cl.Activate("id").Then(func(c *kmipclient.Client) kmipclient.PayloadBuilder { return c.Get("id") }).
				Then(func(c *kmipclient.Client) kmipclient.PayloadBuilder { return c.Destroy("id") }).Exec(kmipclient.OnBatchErr(kmip.BatchErrorContinuationOptionContinue))
			if err != nil {
				return nil, err
			}
			return res.Unwrap()
		}},
		c12call{name: "BatchOpt(OnBatchErr=Undo)(items)", ops: []kmip.Operation{kmip.OperationActivate, kmip.OperationGet}, perItem: true, run: func(cl *kmipclient.Client) ([]kmip.OperationPayload, error) {
			res, err := cl.BatchOpt(context.Background(), []kmip.OperationPayload{&payloads.ActivateRequestPayload{UniqueIdentifier: "id"}, &payloads.GetRequestPayload{UniqueIdentifier: "id"}}, kmipclient.OnBatchErr(kmip.BatchErrorContinuationOptionUndo))
			if err != nil {
				return nil, err
			}
			out := make([]kmip.OperationPayload, len(res))
			for i := range res {
				if res[i].Err() != nil {
					out[i] = failedItem{}
				} else {
					out[i] = res[i].ResponsePayload
				}
			}
			return out, nil
		}},
		c12call{name: "Signer", ops: []kmip.Operation{kmip.OperationGetAttributes}, run: func(cl *kmipclient.Client) ([]kmip.OperationPayload, error) {
			_, err := cl.Signer(context.Background(), "priv", "pub")
			if err == nil {
				return nil, nil // a signer was built: nothing typed to inspect here
			}
			return nil, err
		}},
	)
	return calls
}

func runC12(c *vlib.Check) {
	specs := allRespSpecs()
	calls := c12Calls()
	c.Rule = fmt.Sprintf("every fluent call (%d executors of the 27 operations, Request, Batch+Unwrap, BatchExec with and without each batch error continuation option, a three-operation Then chain, the Signer flow, and the dial-time version discovery) x every crafted response of the product "+
		"header batch count {0,1,2} x items {0,1,2} x item operation {same, another implemented, unregistered, absent} x status {Success, Failed, Pending, Undone, 7} x reason {absent, 3 named, unnamed} x "+
		"payload {absent, right type, another operation's type, opaque} x message {empty, text} (%d responses per call). Responses are produced by the independent generator and decoded by the library before being handed to the client "+
		"through a stub installed as innermost middleware; for every 5th call the same responses also travel over an in-memory connection through the client's own receive path, many per connection; the crypto.Signer flow end to end (3 announced algorithms x 5 public key objects, consistent or not, x every Sign response); and for every 5th call through a client configured with the library's own middlewares (correlation value, timeout, debug in XML and JSON). distinct = distinct (call, response) pairs", len(calls)-7, len(specs))
	c.Assumptions = []string{"'carries status, reason and message': the error text contains the registered name (or the number, for unregistered values) of the status and of the reason when present, and the message text",
		"the carrying clause is only judged when counts match (header count = items = requested items)"}
	// per-item call: every pair of item specs (reduced alphabet), so that a violating item can follow a failed one
	var itemSpecs []respSpec
	for _, st := range []uint32{0, 1, 2} {
		for _, op := range []int{0, 1, 2} {
			for _, pl := range []int{0, 1, 2} {
				itemSpecs = append(itemSpecs, respSpec{op: op, status: st, payload: pl, reason: int(st)})
			}
		}
	}
	mixedStart := len(specs)
	for _, a := range itemSpecs {
		for _, b := range itemSpecs {
			specs = append(specs, respSpec{hc: 2, ic: 2, mixed: []respSpec{a, b}})
		}
	}
	type pair struct{ ci, si int }
	var pairs []pair
	for ci := range calls {
		for si := range specs {
			if si >= mixedStart && len(calls[ci].ops) != 2 {
				continue
			}
			pairs = append(pairs, pair{ci, si})
		}
	}
	// one client per worker chunk (the stub reads the current spec)
	const block = 2000
	vlib.Parallel((len(pairs)+block-1)/block, 0, func(b int) {
		cc, err := newC12Client(false, &specs[0])
		if err != nil {
			c.Violation("machinery:dial", err.Error(), nil)
			return
		}
		defer cc.cl.Close()
		for i := b * block; i < (b+1)*block && i < len(pairs); i++ {
			call, spec := calls[pairs[i].ci], specs[pairs[i].si]
			cc.current.Store(&spec)
			c12Judge(c, call, spec, func() ([]kmip.OperationPayload, error) { return call.run(cc.cl) }, i%9973 == 0)
		}
	})
	// the same judge with the responses travelling over a real connection (no stub): every 5th call x every response, one
	// client per chunk, so that each response is received after whatever the previous exchanges left in the connection
	var wpairs []pair
	for _, p := range pairs {
		if p.ci%5 == 0 {
			wpairs = append(wpairs, p)
		}
	}
	vlib.Parallel((len(wpairs)+block-1)/block, 0, func(b int) {
		cc, err := newC12WireClient(&specs[0])
		if err != nil {
			c.Violation("machinery:dial", err.Error(), nil)
			return
		}
		defer cc.cl.Close()
		for i := b * block; i < (b+1)*block && i < len(wpairs); i++ {
			call, spec := calls[wpairs[i].ci], specs[wpairs[i].si]
			cc.current.Store(&spec)
			wcall := call
			wcall.name = "[over a connection] " + call.name
			c12Judge(c, wcall, spec, func() ([]kmip.OperationPayload, error) { return call.run(cc.cl) }, false)
		}
	})
	c.Extra["responses_over_a_real_connection"] = len(wpairs)
	// ... and through a client configured with the library's own middlewares (correlation value, timeout, debug in XML and
	// JSON), which handle the response before the client has validated it
	var mpairs []pair
	for _, p := range pairs {
		if p.ci%5 == 1 || calls[p.ci].perItem {
			mpairs = append(mpairs, p)
		}
	}
	vlib.Parallel((len(mpairs)+block-1)/block, 0, func(b int) {
		cc, err := newC12Client(false, &specs[0], true)
		if err != nil {
			c.Violation("machinery:dial", err.Error(), nil)
			return
		}
		defer cc.cl.Close()
		for i := b * block; i < (b+1)*block && i < len(mpairs); i++ {
			call, spec := calls[mpairs[i].ci], specs[mpairs[i].si]
			cc.current.Store(&spec)
			mcall := call
			mcall.name = "[library middlewares] " + call.name
			c12Judge(c, mcall, spec, func() ([]kmip.OperationPayload, error) { return call.run(cc.cl) }, false)
		}
	})
	c.Extra["responses_through_library_middlewares"] = len(mpairs)
	c12Signer(c, specs[:mixedStart])
	// dial-time discovery
	for si := range specs[:mixedStart] {
		spec := specs[si]
		label := "Dial(discovery) <- " + spec.String()
		c.Eval([]byte(label), true)
		rep := map[string]any{"kind": "response", "call": "DialContext with version discovery", "response": spec.String(), "hex": hex.EncodeToString(craft(spec, []kmip.Operation{kmip.OperationDiscoverVersions}))}
		var cl *c12client
		var err error
		if pv, site := vlib.Catch(func() { cl, err = newC12Client(true, &spec) }); pv != nil {
			c.Violation("panic:Dial:"+site+":"+short(classify(fmt.Sprint(pv)), 24), fmt.Sprintf("%s: panic %v", label, pv), rep)
			continue
		}
		if pv, site := vlib.Catch(func() {
			if cm, merr := newC12Client(true, &spec, true); merr == nil {
				cm.cl.Close()
			}
		}); pv != nil {
			c.Violation("panic:Dial:"+site+":"+short(classify(fmt.Sprint(pv)), 24), fmt.Sprintf("[library middlewares] %s: panic %v", label, pv), rep)
		}
		if err == nil {
			// accepted: only a well-formed successful DiscoverVersions answer may be accepted
			ok := spec.hc == 1 && spec.ic == 1 && spec.status == 0 && spec.payload == 1 && (spec.op == 0)
			if !ok {
				c.Violation("dial-accepts-violating-response", fmt.Sprintf("%s: connection established (version %v)", label, cl.cl.Version()), rep)
			}
			cl.cl.Close()
		}
	}
	c.Exhaustive = true
}

func c12Judge(c *vlib.Check, call c12call, spec respSpec, run func() ([]kmip.OperationPayload, error), sample bool) {
	if len(spec.mixed) > 0 && !call.perItem {
		// aggregate view for calls that return one verdict: any failed item => failure expected
		agg := spec.mixed[0]
		for _, m := range spec.mixed {
			if m.status != 0 {
				agg = m
			}
		}
		agg.hc, agg.ic = spec.hc, spec.ic
		allSame := spec.mixed[0].String() == spec.mixed[1].String()
		if !allSame {
			// only "no panic" and "a failed item is not reported as overall success" are judged for mixed responses here
			var pls []kmip.OperationPayload
			var err error
			label := call.name + " <- " + spec.String()
			c.Eval([]byte(label), true)
			rep := map[string]any{"kind": "response", "call": call.name, "response": spec.String(), "hex": hex.EncodeToString(craft(spec, call.ops))}
			if pv, site := vlib.Catch(func() { pls, err = run() }); pv != nil {
				c.Violation("panic:"+site+":"+short(classify(fmt.Sprint(pv)), 24), fmt.Sprintf("%s: the call panicked: %v", label, pv), rep)
				return
			}
			_ = pls
			if err == nil && agg.status != 0 {
				c.Violation("failed-item-returned-as-success:"+call.name, fmt.Sprintf("%s: an item failed but the call reports success", label), rep)
			}
			return
		}
		spec = agg
	}
	label := call.name + " <- " + spec.String()
	c.Eval([]byte(label), true)
	if sample {
		c.Sample(label)
	}
	rep := map[string]any{"kind": "response", "call": call.name, "response": spec.String(), "hex": hex.EncodeToString(craft(spec, call.ops))}
	var pls []kmip.OperationPayload
	var err error
	if pv, site := vlib.Catch(func() { pls, err = run() }); pv != nil {
		c.Violation("panic:"+site+":"+short(classify(fmt.Sprint(pv)), 24), fmt.Sprintf("%s: the call panicked: %v", label, pv), rep)
		return
	}
	countsOK := spec.hc == len(call.ops) && spec.ic == len(call.ops)
	if err == nil && call.perItem {
		if spec.hc != len(call.ops) || spec.ic != len(call.ops) {
			c.Violation("count-mismatch-accepted:"+call.name, fmt.Sprintf("%s: header count %d / %d items for %d requested items accepted", label, spec.hc, spec.ic, len(call.ops)), rep)
			return
		}
		for i, p := range pls {
			is := spec
			if len(spec.mixed) > 0 {
				is = spec.mixed[i]
			}
			if _, failed := p.(failedItem); failed {
				if is.status == 0 {
					c.Violation("success-item-surfaced-as-error:"+call.name, fmt.Sprintf("%s: item %d is a success on the wire", label, i), rep)
				}
				continue
			}
			if is.status != 0 {
				c.Violation("failed-item-returned-as-success:"+call.name, fmt.Sprintf("%s: item %d has status %d but is surfaced as success", label, i, is.status), rep)
				return
			}
			want := reflect.PointerTo(msg.PayloadTypes[call.ops[i]][1])
			if p == nil || reflect.ValueOf(p).IsNil() {
				c.Violation("nil-payload-as-success:"+call.name, fmt.Sprintf("%s: item %d is a success with a nil payload", label, i), rep)
				return
			}
			if reflect.TypeOf(p) != want {
				c.Violation("foreign-payload-as-success:"+call.name, fmt.Sprintf("%s: item %d returned %T as success, the requested operation's response type is %s", label, i, p, want), rep)
				return
			}
		}
		return
	}
	if err == nil {
		if call.name == "Signer" {
			return
		}
		if spec.status != 0 && spec.ic > 0 {
			c.Violation("failed-item-returned-as-success:"+call.name, fmt.Sprintf("%s: item status %d but the call reports success", label, spec.status), rep)
			return
		}
		if !countsOK {
			c.Violation("count-mismatch-accepted:"+call.name, fmt.Sprintf("%s: header count %d / %d items for %d requested items accepted", label, spec.hc, spec.ic, len(call.ops)), rep)
			return
		}
		for i, p := range pls {
			want := reflect.PointerTo(msg.PayloadTypes[call.ops[i]][1])
			if p == nil || reflect.ValueOf(p).IsNil() {
				c.Violation("nil-payload-as-success:"+call.name, fmt.Sprintf("%s: success with a nil payload for item %d", label, i), rep)
				return
			}
			if reflect.TypeOf(p) != want {
				c.Violation("foreign-payload-as-success:"+call.name, fmt.Sprintf("%s: item %d returned %T as success, the requested operation's response type is %s", label, i, p, want), rep)
				return
			}
		}
		return
	}
	// an error: if it stems from a failed item of an otherwise well-formed response it must carry status, reason, message
	if countsOK && spec.status != 0 && spec.op != 3 {
		txt := err.Error()
		if strings.Contains(txt, "undecodable response") {
			return
		}
		// the same exemption when the bytes travelled over a connection: a response that the library's decoder rejects as a
		// whole (e.g. a failed item carrying a payload whose content belongs to another operation) is reported as a decoding
		// error; the carrying clause is judged on responses that decode
		if ttlv.UnmarshalTTLV(craft(spec, call.ops), &kmip.ResponseMessage{}) != nil {
			return
		}
		stName := map[uint32]string{1: "OperationFailed", 2: "OperationPending", 3: "OperationUndone", 7: "7"}[spec.status]
		missing := []string{}
		if !strings.Contains(txt, stName) && !strings.Contains(txt, fmt.Sprintf("%08X", spec.status)) {
			missing = append(missing, "status")
		}
		if spec.reason != 0 {
			rn := []string{"", "ItemNotFound", "GeneralFailure", "PermissionDenied", "7777"}[spec.reason]
			if !strings.Contains(txt, rn) {
				missing = append(missing, "reason")
			}
		}
		if spec.message != "" && !strings.Contains(txt, spec.message) {
			missing = append(missing, "message")
		}
		if len(missing) > 0 {
			named := "named"
			if spec.status == 7 || spec.reason == 4 {
				named = "unnamed-value"
			}
			c.Violation("error-does-not-carry:"+strings.Join(missing, "+")+":"+named, fmt.Sprintf("%s: error %q does not carry the server's %s", label, short(txt, 200), strings.Join(missing, ", ")), rep)
		}
	}
}

// c12Signer: the crypto.Signer flow end to end. The scripted server describes the key pair through GetAttributes
// (algorithm X in {RSA, EC, ECDSA}) and hands out a public key of kind Y in {RSA, EC P-256, EC P-521, a symmetric key, a
// public key object without material} - consistent or not - and then answers the Sign request with every response of the
// product. Signer() and Sign() return a value or an error; they never panic.
// c12AttrShapes: how one attribute of a Get Attributes answer can arrive (all well-formed TTLV).
var c12AttrShapes = []string{"absent", "without-value", "with-a-text-value", "with-an-empty-structure-value", "twice", "with-index-only"}

// c12ReshapeAttribute rewrites attribute #idx of the (single) Get Attributes response payload in an encoded response message.
func c12ReshapeAttribute(raw []byte, idx int, shape string) []byte {
	var msg ttlv.Value
	if err := ttlv.UnmarshalTTLV(raw, &msg); err != nil {
		panic(err)
	}
	var walk func(v ttlv.Value) ttlv.Value
	walk = func(v ttlv.Value) ttlv.Value {
		st, ok := v.Value.(ttlv.Struct)
		if !ok {
			return v
		}
		out := ttlv.Struct{}
		n := -1
		for _, k := range st {
			if v.Tag != kmip.TagResponsePayload || k.Tag != kmip.TagAttribute {
				out = append(out, walk(k))
				continue
			}
			if n++; n != idx {
				out = append(out, k)
				continue
			}
			parts := k.Value.(ttlv.Struct)
			name := parts[0]
			switch shape {
			case "absent":
			case "without-value":
				out = append(out, ttlv.Value{Tag: k.Tag, Value: ttlv.Struct{name}})
			case "with-index-only":
				out = append(out, ttlv.Value{Tag: k.Tag, Value: ttlv.Struct{name, {Tag: kmip.TagAttributeIndex, Value: int32(0)}}})
			case "with-a-text-value":
				out = append(out, ttlv.Value{Tag: k.Tag, Value: ttlv.Struct{name, {Tag: kmip.TagAttributeValue, Value: "text"}}})
			case "with-an-empty-structure-value":
				out = append(out, ttlv.Value{Tag: k.Tag, Value: ttlv.Struct{name, {Tag: kmip.TagAttributeValue, Value: ttlv.Struct{}}}})
			case "twice":
				out = append(out, k, k)
			default:
				panic("c12ReshapeAttribute: " + shape)
			}
		}
		return ttlv.Value{Tag: v.Tag, Value: out}
	}
	return ttlv.MarshalTTLV(walk(msg))
}

func c12X25519() any {
	k, err := ecdh.X25519().NewPrivateKey(bytes.Repeat([]byte{7}, 32))
	if err != nil {
		panic(err)
	}
	return k.PublicKey()
}

func c12Signer(c *vlib.Check, specs []respSpec) {
	rk := rsaKey(1024, 0xC0, 0xFF, 65537)
	ek := ecKey(elliptic.P256(), big.NewInt(0x7F))
	ek5 := ecKey(elliptic.P521(), big.NewInt(0x80))
	pkix := func(k any) []byte {
		b, err := x509.MarshalPKIXPublicKey(k)
		if err != nil {
			panic(err)
		}
		return b
	}
	pubObj := func(alg kmip.CryptographicAlgorithm, der []byte) kmip.Object {
		return &kmip.PublicKey{KeyBlock: kmip.KeyBlock{KeyFormatType: kmip.KeyFormatTypeX_509, CryptographicAlgorithm: alg, CryptographicLength: 256,
			KeyValue: &kmip.KeyValue{Plain: &kmip.PlainKeyValue{KeyMaterial: kmip.KeyMaterial{Bytes: &der}}}}}
	}
	sym := make([]byte, 16)
	keys := []struct {
		name string
		ot   kmip.ObjectType
		obj  kmip.Object
	}{
		{"rsa-public", kmip.ObjectTypePublicKey, pubObj(kmip.CryptographicAlgorithmRSA, pkix(&rk.PublicKey))},
		{"ec-p256-public", kmip.ObjectTypePublicKey, pubObj(kmip.CryptographicAlgorithmEC, pkix(&ek.PublicKey))},
		{"ec-p521-public", kmip.ObjectTypePublicKey, pubObj(kmip.CryptographicAlgorithmEC, pkix(&ek5.PublicKey))},
		{"symmetric-key", kmip.ObjectTypeSymmetricKey, &kmip.SymmetricKey{KeyBlock: kmip.KeyBlock{KeyFormatType: kmip.KeyFormatTypeRaw, CryptographicAlgorithm: kmip.CryptographicAlgorithmAES, CryptographicLength: 128,
			KeyValue: &kmip.KeyValue{Plain: &kmip.PlainKeyValue{KeyMaterial: kmip.KeyMaterial{Bytes: &sym}}}}}},
		// well-formed SPKI material of algorithms the signer does not implement
		{"ed25519-public", kmip.ObjectTypePublicKey, pubObj(kmip.CryptographicAlgorithmEC, pkix(ed25519.NewKeyFromSeed(make([]byte, 32)).Public()))},
		{"x25519-public", kmip.ObjectTypePublicKey, pubObj(kmip.CryptographicAlgorithmEC, pkix(c12X25519()))},
		{"public-key-without-material", kmip.ObjectTypePublicKey, &kmip.PublicKey{KeyBlock: kmip.KeyBlock{KeyFormatType: kmip.KeyFormatTypeX_509}}},
	}
	algs := []kmip.CryptographicAlgorithm{kmip.CryptographicAlgorithmRSA, kmip.CryptographicAlgorithmEC, kmip.CryptographicAlgorithmECDSA}
	// the shape of the attributes in the Get Attributes answers of the set-up flow, as they arrive from the wire:
	// mut 0 = as the library's server sends them; else attribute (mut-1)/len(c12AttrShapes) of the answer about `who` is reshaped
	type cfg struct {
		ai, ki, mut int
		who         string
	}
	var cfgs []cfg
	for ai := range algs {
		for ki := range keys {
			cfgs = append(cfgs, cfg{ai, ki, 0, ""})
			if ki > 1 {
				continue
			}
			for _, who := range []string{"priv", "pub", "both"} {
				for m := 1; m <= 4*len(c12AttrShapes); m++ {
					cfgs = append(cfgs, cfg{ai, ki, m, who})
				}
			}
		}
	}
	var n int64
	vlib.Parallel(len(cfgs), 0, func(i int) {
		alg, key := algs[cfgs[i].ai], keys[cfgs[i].ki]
		var cur atomic.Pointer[respSpec]
		stub := func(next kmipclient.Next, ctx context.Context, req *kmip.RequestMessage) (*kmip.ResponseMessage, error) {
			ok := func(op kmip.Operation, pl kmip.OperationPayload) (*kmip.ResponseMessage, error) {
				return &kmip.ResponseMessage{Header: kmip.ResponseHeader{ProtocolVersion: kmip.V1_4, BatchCount: 1}, BatchItem: []kmip.ResponseBatchItem{{Operation: op, ResponsePayload: pl}}}, nil
			}
			switch p := req.BatchItem[0].RequestPayload.(type) {
			case *payloads.GetAttributesRequestPayload:
				ot, link, lt, um := kmip.ObjectTypePrivateKey, "pub", kmip.LinkTypePublicKeyLink, kmip.CryptographicUsageSign
				if p.UniqueIdentifier == "pub" {
					ot, link, lt, um = kmip.ObjectTypePublicKey, "priv", kmip.LinkTypePrivateKeyLink, kmip.CryptographicUsageVerify
				}
				resp, err := ok(kmip.OperationGetAttributes, &payloads.GetAttributesResponsePayload{UniqueIdentifier: p.UniqueIdentifier, Attribute: []kmip.Attribute{
					{AttributeName: kmip.AttributeNameObjectType, AttributeValue: ot},
					{AttributeName: kmip.AttributeNameCryptographicAlgorithm, AttributeValue: alg},
					{AttributeName: kmip.AttributeNameLink, AttributeValue: kmip.Link{LinkType: lt, LinkedObjectIdentifier: link}},
					{AttributeName: kmip.AttributeNameCryptographicUsageMask, AttributeValue: um},
				}})
				if mut := cfgs[i].mut; mut > 0 && (cfgs[i].who == "both" || cfgs[i].who == p.UniqueIdentifier) {
					raw := c12ReshapeAttribute(ttlv.MarshalTTLV(resp), (mut-1)/len(c12AttrShapes), c12AttrShapes[(mut-1)%len(c12AttrShapes)])
					resp = &kmip.ResponseMessage{}
					if err := ttlv.UnmarshalTTLV(raw, resp); err != nil {
						return nil, fmt.Errorf("undecodable response: %w", err)
					}
				}
				return resp, err
			case *payloads.GetRequestPayload:
				return ok(kmip.OperationGet, &payloads.GetResponsePayload{ObjectType: key.ot, UniqueIdentifier: p.UniqueIdentifier, Object: key.obj})
			case *payloads.SignRequestPayload:
				raw := craft(*cur.Load(), []kmip.Operation{kmip.OperationSign})
				resp := &kmip.ResponseMessage{}
				if err := ttlv.UnmarshalTTLV(raw, resp); err != nil {
					return nil, fmt.Errorf("undecodable response: %w", err)
				}
				return resp, nil
			}
			return nil, fmt.Errorf("unexpected request")
		}
		dialer := func(ctx context.Context) (net.Conn, error) { a, _ := net.Pipe(); return a, nil }
		cl, err := kmipclient.DialContext(context.Background(), "stub", kmipclient.WithDialerUnsafe(dialer), kmipclient.EnforceVersion(kmip.V1_4), kmipclient.WithMiddlewares(stub))
		if err != nil {
			c.Violation("machinery:dial", err.Error(), nil)
			return
		}
		defer cl.Close()
		label := fmt.Sprintf("Signer: attributes say %s, the public key object is %s", ttlv.EnumStr(alg), key.name)
		if m := cfgs[i].mut; m > 0 {
			label += fmt.Sprintf("; attribute #%d of the Get Attributes answer about %s arrives %s", (m-1)/len(c12AttrShapes), cfgs[i].who, c12AttrShapes[(m-1)%len(c12AttrShapes)])
		}
		rep := map[string]any{"kind": "signer", "case": label}
		var signer crypto.Signer
		var serr error
		if pv, site := vlib.Catch(func() { signer, serr = cl.Signer(context.Background(), "priv", "pub") }); pv != nil {
			c.Violation("panic:Signer:"+site, fmt.Sprintf("%s: building the signer panicked: %v", label, pv), rep)
			return
		}
		c.Eval([]byte(label), true)
		if serr != nil || signer == nil || cfgs[i].mut > 0 {
			return
		}
		digest := make([]byte, 32)
		for si := range specs {
			spec := specs[si]
			cur.Store(&spec)
			atomic.AddInt64(&n, 1)
			for _, opts := range []crypto.SignerOpts{crypto.SHA256, &rsa.PSSOptions{SaltLength: rsa.PSSSaltLengthEqualsHash, Hash: crypto.SHA256}} {
				if pv, site := vlib.Catch(func() { _, _ = signer.Sign(nil, digest, opts) }); pv != nil {
					c.Violation("panic:Signer.Sign:"+site, fmt.Sprintf("%s; Sign <- %s: panic %v", label, spec.String(), pv), rep)
					return
				}
			}
		}
	})
	c.Mu(func() { c.Evaluations += n; c.DistinctN += n })
	c.Extra["signer_sign_responses"] = n
}
