package checks

import (
	"bytes"
	"encoding"
	"encoding/json"
	"encoding/xml"
	"fmt"
	"os"
	"path/filepath"
	"reflect"
	"regexp"
	"sort"
	"strings"

	"github.com/ovh/kmip-go" // registers tags, enumerations and masks
	"github.com/ovh/kmip-go/ttlv"
	"verifharness/pinned"
	"verifharness/reftext"
	"verifharness/refttlv"
	"verifharness/vlib"
)

// c17MaskPrev: what a decode destination of a mask type holds before the decode (besides the zero value).
var c17MaskPrev = []int32{1, 0x0C, -1}

func init() { All["C17"] = Spec{"exploration", runC17} }

type Registry = pinned.Registry

var reHexName = regexp.MustCompile(`^0x[0-9A-Fa-f]+$`)

// LiveRegistry reads the whole registry through the library's public API, scanning every 24-bit tag number.
func LiveRegistry() *Registry {
	r := &Registry{Tags: map[string]int{}, Enums: map[string]map[string]uint32{}, Masks: map[string][]string{}}
	for tag := 0; tag <= 0xFFFFFF; tag++ {
		name := ttlv.TagString(tag)
		if reHexName.MatchString(name) {
			continue
		}
		if old, dup := r.Tags[name]; dup {
			r.Tags[name+fmt.Sprintf("#DUPLICATE-OF-%06X", old)] = tag
		} else {
			r.Tags[name] = tag
		}
		vals := map[string]uint32{}
		for v, n := range ttlv.EnumValuesByTag(tag) {
			if old, dup := vals[n]; dup {
				vals[n+fmt.Sprintf("#DUPLICATE-OF-%08X", old)] = v
			} else {
				vals[n] = v
			}
		}
		if len(vals) > 0 {
			r.Enums[name] = vals
		}
		if first := string(ttlv.AppendBitmaskString(nil, tag, int32(1), "|")); first != "" && !reHexName.MatchString(first) {
			var flags []string
			for bit := 0; bit < 32; bit++ {
				s := string(ttlv.AppendBitmaskString(nil, tag, int32(uint32(1)<<uint(bit)), "|"))
				if reHexName.MatchString(s) {
					break
				}
				flags = append(flags, s)
			}
			r.Masks[name] = flags
		}
	}
	return r
}

func pinnedPath(name string) string { return pinned.Path(name) }

func LoadPinnedRegistry() (*Registry, error) { return pinned.Reg(), nil }

// GenPinned writes pinned/registry.json from the live registry (run once by hand; never at check time).
func GenPinned() error {
	b, _ := json.MarshalIndent(LiveRegistry(), "", " ")
	return os.WriteFile(pinnedPath("registry.json"), b, 0o644)
}

func runC17(c *vlib.Check) {
	c.Rule = "the whole registry, exhaustively: every 24-bit tag number is probed for a name; every registered tag, every value of every enumeration and every flag of every bit mask is compared with " +
		"pinned/registry.json in both directions and round-tripped number->name->number and name->number->name through TagString, EnumName/EnumByName, AppendBitmaskString/BitmaskByStr and one-item XML, JSON and text documents; " +
		"plus unregistered numbers and names per scope; every single bit 0..31 and mixed values of both masks written to XML / JSON and read by the independent reader and the library, into a fresh variable and into variables already holding 0x1 / 0xC / 0xFFFFFFFF; every named value is also read into one reused ttlv.Value per text format, right after an item of another enumeration; registration histories: after ttlv.RegisterEnum of one vendor value on each enumeration in turn (and RegisterTag of one tag) every pinned name and number still resolves both ways and the registry is the pinned one plus exactly the extensions. distinct = distinct (scope, name, number) triples"
	c.Assumptions = []string{"pinned/registry.json was generated from the pinned commit and cross-checked against every element and enumeration name of the 419 OASIS vector files and against the specification's tables"}
	pin, err := LoadPinnedRegistry()
	if err != nil {
		fmt.Fprintln(os.Stderr, "cannot load pinned registry:", err)
		os.Exit(2)
	}
	live := LiveRegistry()
	v := func(sig, format string, a ...any) {
		c.Violation(sig, fmt.Sprintf(format, a...), map[string]any{"kind": "registry", "detail": fmt.Sprintf(format, a...)})
	}
	// --- tags
	seenNum := map[int]string{}
	for name, num := range pin.Tags {
		c.Eval([]byte(fmt.Sprint("tag", name, num)), true)
		if ln, ok := live.Tags[name]; !ok {
			v("tag-missing", "tag %s (0x%06X) of the pinned registry is not registered", name, num)
		} else if ln != num {
			v("tag-number-changed", "tag %s is 0x%06X, pinned 0x%06X", name, ln, num)
		}
		if o, dup := seenNum[num]; dup {
			v("pinned-duplicate", "pinned registry lists 0x%06X under %s and %s", num, o, name)
		}
		seenNum[num] = name
		// number -> name
		if got := ttlv.TagString(num); got != name {
			v("tag-name-changed", "TagString(0x%06X) = %q, pinned %q", num, got, name)
		}
		// name -> number through a one-item XML and JSON document; number -> name through the writers
		var val ttlv.Value
		xmlDoc := fmt.Sprintf(`<%s type="Integer" value="7"/>`, name)
		if pv, _ := vlib.Catch(func() { err = ttlv.UnmarshalXML([]byte(xmlDoc), &val) }); pv != nil || err != nil || val.Tag != num {
			v("tag-xml-read", "XML element <%s> reads as tag 0x%06X (err %v, panic %v), pinned 0x%06X", name, val.Tag, err, pv, num)
		}
		val = ttlv.Value{}
		jsonDoc := fmt.Sprintf(`{"tag": %q, "type": "Integer", "value": 7}`, name)
		if pv, _ := vlib.Catch(func() { err = ttlv.UnmarshalJSON([]byte(jsonDoc), &val) }); pv != nil || err != nil || val.Tag != num {
			v("tag-json-read", "JSON tag %q reads as 0x%06X (err %v, panic %v), pinned 0x%06X", name, val.Tag, err, pv, num)
		}
		item := ttlv.Value{Tag: num, Value: int32(7)}
		if x := string(ttlv.MarshalXML(item)); !strings.HasPrefix(x, "<"+name+" ") {
			v("tag-xml-write", "tag 0x%06X is written as %s in XML, pinned name %s", num, x, name)
		}
		if j := string(ttlv.MarshalJSON(item)); !strings.Contains(j, `"tag": "`+name+`"`) {
			v("tag-json-write", "tag 0x%06X is written as %s in JSON, pinned name %s", num, j, name)
		}
		if t := string(ttlv.MarshalText(item)); !strings.Contains(t, name) {
			v("tag-text-write", "tag 0x%06X is written as %q in text form, pinned name %s", num, t, name)
		}
	}
	for name, num := range live.Tags {
		if _, ok := pin.Tags[name]; !ok {
			v("tag-extra", "registered tag %s (0x%06X) is not in the pinned registry", name, num)
		}
	}
	// unregistered tag numbers / names
	for _, num := range []int{0x420000, 0x420125, 0x540001, 0xFFFFFF} {
		c.Eval([]byte(fmt.Sprint("untag", num)), true)
		if _, taken := seenNum[num]; taken {
			continue
		}
		item := ttlv.Value{Tag: num, Value: int32(7)}
		for _, enc := range []struct {
			n string
			m func(any) []byte
			u func([]byte, any) error
		}{{"xml", ttlv.MarshalXML, ttlv.UnmarshalXML}, {"json", ttlv.MarshalJSON, ttlv.UnmarshalJSON}} {
			var back ttlv.Value
			doc := enc.m(item)
			if pv, _ := vlib.Catch(func() { err = enc.u(doc, &back) }); pv != nil || err != nil || back.Tag != num {
				v("unregistered-tag-roundtrip:"+enc.n, "unregistered tag 0x%06X written as %s reads back as 0x%06X (err %v)", num, doc, back.Tag, err)
			}
		}
	}
	for _, name := range []string{"NoSuchTagName", "activationdate", "ActivationDate "} {
		var val ttlv.Value
		doc := fmt.Sprintf(`{"tag": %q, "type": "Integer", "value": 7}`, name)
		_, _ = vlib.Catch(func() { err = ttlv.UnmarshalJSON([]byte(doc), &val) })
		if err == nil && val.Tag != 0 && pin.Tags[name] == 0 {
			v("unregistered-name-accepted", "unknown tag name %q reads as tag 0x%06X", name, val.Tag)
		}
	}
	// --- enumerations
	for ename, vals := range pin.Enums {
		tag, ok := pin.Tags[ename]
		if !ok {
			v("pinned-inconsistent", "pinned enumeration %s has no tag", ename)
			continue
		}
		lv := live.Enums[ename]
		byNum := map[uint32]string{}
		for vn, num := range vals {
			c.Eval([]byte(fmt.Sprint("enum", ename, vn, num)), true)
			if o, dup := byNum[num]; dup {
				v("pinned-duplicate", "pinned enumeration %s lists %d under %s and %s", ename, num, o, vn)
			}
			byNum[num] = vn
			if ln, ok := lv[vn]; !ok {
				v("enum-value-missing", "%s value %s (0x%08X) is not registered", ename, vn, num)
				continue
			} else if ln != num {
				v("enum-number-changed", "%s value %s is 0x%08X, pinned 0x%08X", ename, vn, ln, num)
			}
			if got := ttlv.EnumName(tag, num); got != vn {
				v("enum-name-changed", "%s: EnumName(0x%08X) = %q, pinned %q", ename, num, got, vn)
			}
			if got, err := ttlv.EnumByName(tag, vn); err != nil || got != num {
				v("enum-name-lookup", "%s: EnumByName(%q) = 0x%08X (%v), pinned 0x%08X", ename, vn, got, err, num)
			}
			item := ttlv.Value{Tag: tag, Value: ttlv.Enum(num)}
			for _, enc := range []struct {
				n string
				m func(any) []byte
				u func([]byte, any) error
			}{{"xml", ttlv.MarshalXML, ttlv.UnmarshalXML}, {"json", ttlv.MarshalJSON, ttlv.UnmarshalJSON}} {
				doc := enc.m(item)
				if !strings.Contains(string(doc), `"`+vn+`"`) {
					v("enum-write:"+enc.n, "%s value 0x%08X is written as %s, pinned name %s", ename, num, doc, vn)
				}
				var back ttlv.Value
				if pv, _ := vlib.Catch(func() { err = enc.u(doc, &back) }); pv != nil || err != nil || back.Value != ttlv.Enum(num) {
					v("enum-roundtrip:"+enc.n, "%s value %s written as %s reads back as %v (err %v)", ename, vn, doc, back.Value, err)
				}
			}
			if t := string(ttlv.MarshalText(item)); !strings.Contains(t, vn) {
				v("enum-write:text", "%s value 0x%08X is written as %q in text form, pinned name %s", ename, num, t, vn)
			}
		}
		for vn, num := range lv {
			if _, ok := vals[vn]; !ok {
				v("enum-value-extra", "%s value %s (0x%08X) is not in the pinned registry", ename, vn, num)
			}
		}
		// unregistered numbers: written numerically, read back as the same number
		for _, num := range []uint32{0, 0x7FFFFFF0, 0xFFFFFFFF} {
			if _, ok := byNum[num]; ok {
				continue
			}
			c.Eval([]byte(fmt.Sprint("enum-unreg", ename, num)), true)
			item := ttlv.Value{Tag: tag, Value: ttlv.Enum(num)}
			for _, enc := range []struct {
				n string
				m func(any) []byte
				u func([]byte, any) error
			}{{"xml", ttlv.MarshalXML, ttlv.UnmarshalXML}, {"json", ttlv.MarshalJSON, ttlv.UnmarshalJSON}} {
				doc := enc.m(item)
				var back ttlv.Value
				if pv, _ := vlib.Catch(func() { err = enc.u(doc, &back) }); pv != nil || err != nil || back.Value != ttlv.Enum(num) {
					v("enum-unregistered-roundtrip:"+enc.n, "%s unregistered value 0x%08X written as %s reads back as %v (err %v)", ename, num, doc, back.Value, err)
				}
			}
		}
		if got, err := ttlv.EnumByName(tag, "NoSuchValueName"); err == nil {
			v("enum-unknown-name-accepted", "%s: unknown value name resolves to 0x%08X", ename, got)
		}
	}
	// --- decode-target history: one ttlv.Value per text format receives every named value in turn, each time right after an
	// item of another enumeration (Object Type = SymmetricKey): what the target held before must not change how a name is read
	{
		var enames []string
		for n := range pin.Enums {
			enames = append(enames, n)
		}
		sort.Strings(enames)
		otTag := pin.Tags["ObjectType"]
		otItem := ttlv.Value{Tag: otTag, Value: ttlv.Enum(pin.Enums["ObjectType"]["SymmetricKey"])}
		for _, enc := range []struct {
			n string
			m func(any) []byte
			u func([]byte, any) error
		}{{"xml", ttlv.MarshalXML, ttlv.UnmarshalXML}, {"json", ttlv.MarshalJSON, ttlv.UnmarshalJSON}} {
			var reused ttlv.Value
			otDoc := enc.m(otItem)
			for _, ename := range enames {
				tag := pin.Tags[ename]
				var vns []string
				for vn := range pin.Enums[ename] {
					vns = append(vns, vn)
				}
				sort.Strings(vns)
				for _, vn := range vns {
					num := pin.Enums[ename][vn]
					c.Eval([]byte(fmt.Sprint("enum-reused-target", enc.n, ename, vn)), true)
					doc := enc.m(ttlv.Value{Tag: tag, Value: ttlv.Enum(num)})
					if pv, _ := vlib.Catch(func() { err = enc.u(otDoc, &reused) }); pv != nil || err != nil || reused.Tag != otTag || reused.Value != otItem.Value {
						v("enum-reused-target:"+enc.n, "a ttlv.Value that last held %s reads the ObjectType item %s as tag 0x%06X value %v (err %v, panic %v)", ename, otDoc, reused.Tag, reused.Value, err, pv)
					}
					if pv, _ := vlib.Catch(func() { err = enc.u(doc, &reused) }); pv != nil || err != nil || reused.Tag != tag || reused.Value != ttlv.Enum(num) {
						v("enum-reused-target:"+enc.n, "a ttlv.Value that last held an ObjectType item reads %s value %s (%s) as tag 0x%06X value %v (err %v, panic %v)", ename, vn, doc, reused.Tag, reused.Value, err, pv)
					}
				}
			}
		}
	}
	for ename := range live.Enums {
		if _, ok := pin.Enums[ename]; !ok {
			v("enum-extra", "registered enumeration %s is not in the pinned registry", ename)
		}
	}
	// --- masks
	for mname, flags := range pin.Masks {
		tag := pin.Tags[mname]
		lf := live.Masks[mname]
		if strings.Join(lf, ",") != strings.Join(flags, ",") {
			v("mask-flags-changed", "%s flags are %v, pinned %v", mname, lf, flags)
		}
		seen := map[string]bool{}
		for bit, fn := range flags {
			c.Eval([]byte(fmt.Sprint("mask", mname, fn, bit)), true)
			if seen[fn] {
				v("pinned-duplicate", "pinned mask %s lists flag %s twice", mname, fn)
			}
			seen[fn] = true
			val := int32(uint32(1) << uint(bit))
			if got := string(ttlv.AppendBitmaskString(nil, tag, val, "|")); got != fn {
				v("mask-name-changed", "%s bit %d is written %q, pinned %q", mname, bit, got, fn)
			}
			if got, err := ttlv.BitmaskByStr(tag, fn); err != nil || got != val {
				v("mask-name-lookup", "%s: BitmaskByStr(%q) = 0x%X (%v), pinned bit %d", mname, fn, got, err, bit)
			}
		}
		if _, err := ttlv.BitmaskByStr(tag, "NoSuchFlag"); err == nil {
			v("mask-unknown-name-accepted", "%s: unknown flag name accepted", mname)
		}
		// every single bit 0..31 (named or not) and mixed values: what the XML and JSON forms write must denote the same
		// number for the independent reader (pinned names) and for the library's own reader
		var vals []uint32
		for bit := 0; bit < 32; bit++ {
			vals = append(vals, uint32(1)<<uint(bit))
		}
		named := uint32(1)<<uint(len(flags)) - 1
		vals = append(vals, 0, named, named|0x80000000, 0x80000001, 0xC0000000, 0x7FFFFFFF, 0xFFFFFFFF, 1<<uint(len(flags)), 1<<uint(len(flags))|1)
		for _, u := range vals {
			val := int32(u)
			c.Eval([]byte(fmt.Sprint("mask-value", mname, u)), true)
			var mt reflect.Type
			switch mname {
			case "CryptographicUsageMask":
				mt = reflect.TypeOf(kmip.CryptographicUsageMask(0))
			case "StorageStatusMask":
				mt = reflect.TypeOf(kmip.StorageStatusMask(0))
			default:
				v("machinery:mask-type", "no Go type known to the harness for mask %s", mname)
				continue
			}
			iv := reflect.New(mt).Elem()
			iv.SetInt(int64(val))
			item := iv.Interface()
			for _, enc := range []struct {
				n     string
				m     func(any) []byte
				u     func([]byte, any) error
				parse func([]byte) (*refttlv.Node, error)
			}{{"xml", ttlv.MarshalXML, ttlv.UnmarshalXML, reftext.XMLToTree}, {"json", ttlv.MarshalJSON, ttlv.UnmarshalJSON, reftext.JSONToTree}} {
				var doc []byte
				if pv, _ := vlib.Catch(func() { doc = enc.m(item) }); pv != nil {
					v("mask-write-panic:"+enc.n, "%s value 0x%08X: writing panicked: %v", mname, u, pv)
					continue
				}
				if tn, perr := enc.parse(doc); perr != nil || uint32(tn.I) != u {
					got := int64(-1)
					if tn != nil {
						got = tn.I
					}
					v("mask-write:"+enc.n, "%s value 0x%08X is written as %s, which denotes 0x%X for the independent reader (err %v)", mname, u, doc, got, perr)
				}
				back := reflect.New(mt)
				if pv, _ := vlib.Catch(func() { err = enc.u(doc, back.Interface()) }); pv != nil || err != nil || int32(back.Elem().Int()) != val {
					v("mask-roundtrip:"+enc.n, "%s value 0x%08X written as %s reads back as 0x%X (err %v, panic %v)", mname, u, doc, uint32(back.Elem().Int()), err, pv)
				}
				// the same into a destination that already holds another value (a reused variable, defaults set before decoding)
				for _, prev := range c17MaskPrev {
					back.Elem().SetInt(int64(prev))
					if pv, _ := vlib.Catch(func() { err = enc.u(doc, back.Interface()) }); pv != nil || err != nil || int32(back.Elem().Int()) != val {
						v("mask-reused-target:"+enc.n, "%s value 0x%08X written as %s reads as 0x%X into a variable that held 0x%X (err %v, panic %v)", mname, u, doc, uint32(back.Elem().Int()), uint32(prev), err, pv)
					}
				}
			}
			// MarshalText / UnmarshalText of the typed value
			if m, ok := item.(encoding.TextMarshaler); ok {
				txt, terr := m.MarshalText()
				back := reflect.New(mt)
				if um, ok2 := back.Interface().(encoding.TextUnmarshaler); ok2 && terr == nil {
					if uerr := um.UnmarshalText(txt); uerr != nil || int32(back.Elem().Int()) != val {
						v("mask-text-roundtrip", "%s value 0x%08X: MarshalText gives %q, UnmarshalText of it gives 0x%X (%v)", mname, u, txt, uint32(back.Elem().Int()), uerr)
					}
					for _, prev := range c17MaskPrev {
						back.Elem().SetInt(int64(prev))
						if uerr := um.UnmarshalText(txt); uerr != nil || int32(back.Elem().Int()) != val {
							v("mask-text-reused-target", "%s value 0x%08X: MarshalText gives %q; UnmarshalText of it into a variable that held 0x%X gives 0x%X (%v)", mname, u, txt, uint32(prev), uint32(back.Elem().Int()), uerr)
						}
					}
				}
			}
		}
	}
	for mname := range live.Masks {
		if _, ok := pin.Masks[mname]; !ok {
			v("mask-extra", "registered mask %s is not in the pinned registry", mname)
		}
	}
	// --- the typed text forms: MarshalText / UnmarshalText of every enumeration Go type
	types := reachableEnumTypes()
	typed := 0
	for ename, vals := range pin.Enums {
		t, ok := types[ename]
		if !ok {
			continue
		}
		typed++
		// a name that belongs to another enumeration only (must be rejected in this scope)
		foreign := ""
		for other, ov := range pin.Enums {
			if other == ename {
				continue
			}
			for n := range ov {
				if _, here := vals[n]; !here && !reHexName.MatchString(n) {
					foreign = n
				}
			}
			if foreign != "" {
				break
			}
		}
		for vn, num := range vals {
			c.Eval([]byte(fmt.Sprint("typed", ename, vn)), true)
			pv := reflect.New(t)
			pv.Elem().SetUint(uint64(num))
			if m, ok := pv.Interface().(encoding.TextMarshaler); ok {
				txt, err := m.MarshalText()
				if err != nil || string(txt) != vn {
					v("typed-enum-marshaltext", "%s(0x%08X).MarshalText() = %q (%v), pinned name %q", ename, num, txt, err, vn)
				}
			}
			back := reflect.New(t)
			if u, ok := back.Interface().(encoding.TextUnmarshaler); ok {
				if err := u.UnmarshalText([]byte(vn)); err != nil || uint32(back.Elem().Uint()) != num {
					v("typed-enum-unmarshaltext", "(*%s).UnmarshalText(%q) = 0x%08X (%v), pinned 0x%08X", ename, vn, back.Elem().Uint(), err, num)
				}
			}
		}
		// retained names: the byte slices returned by MarshalText for all values of the type are kept and read only after the
		// last call (a caller building a name table): each must still hold its own name
		{
			type kept struct {
				name string
				txt  []byte
			}
			var ks []kept
			var vns []string
			for vn := range vals {
				vns = append(vns, vn)
			}
			sort.Strings(vns)
			for _, vn := range vns {
				pv := reflect.New(t)
				pv.Elem().SetUint(uint64(vals[vn]))
				if m, ok := pv.Interface().(encoding.TextMarshaler); ok {
					if txt, err := m.MarshalText(); err == nil {
						ks = append(ks, kept{vn, txt})
					}
				}
			}
			for _, k := range ks {
				if string(k.txt) != k.name {
					v("typed-enum-marshaltext-retained", "%s: the bytes returned by MarshalText for %q read %q after the later calls", ename, k.name, k.txt)
					break
				}
			}
		}
		if foreign != "" {
			back := reflect.New(t)
			if u, ok := back.Interface().(encoding.TextUnmarshaler); ok {
				if err := u.UnmarshalText([]byte(foreign)); err == nil {
					v("typed-enum-foreign-name-accepted", "(*%s).UnmarshalText(%q) accepts a name of another enumeration (as 0x%08X)", ename, foreign, back.Elem().Uint())
				}
			}
		}
	}
	c.Extra["enumeration_go_types_checked"] = typed
	// --- independent source: every element name and enumeration / mask value name used by the OASIS vectors
	c17Vectors(c, pin, v)
	names := make([]string, 0, 4)
	for n := range pin.Enums {
		names = append(names, n)
	}
	sort.Strings(names)
	c.Sample(map[string]any{"tags": len(pin.Tags), "enumerations": len(pin.Enums), "masks": len(pin.Masks), "first_enumerations": names[:4]})
	c.Sample(map[string]any{"tag": "ActivationDate", "number": pin.Tags["ActivationDate"], "xml": `<ActivationDate type="Integer" value="7"/>`})
	c.Extra["tag_numbers_probed"] = 1 << 24
	c17Extensions(c, pin, v)
	c.Exhaustive = true
}

type zzVerifExt uint32

// State is a vendor enumeration of the harness whose Go type name equals the name of a standard tag ("State") while it is
// registered under its own vendor tag: the explicit registration of the type must win over a lookup by type name.
type State uint32

// c17Extensions: registration history. An application may register vendor values / tags after the library's own init
// (ttlv.RegisterEnum, ttlv.RegisterTag). After each such registration every pinned name and number of the extended
// enumeration must still resolve in both directions, the new value too, and at the end the whole registry must be the
// pinned one plus exactly the extensions. Runs last: it changes the process-wide registry.
func c17Extensions(c *vlib.Check, pin *Registry, v func(sig, format string, a ...any)) {
	const extNum, extName = uint32(0x8000AB01), "ZzVerifExtension"
	var err error
	enames := make([]string, 0, len(pin.Enums))
	for n := range pin.Enums {
		enames = append(enames, n)
	}
	sort.Strings(enames)
	for _, ename := range enames {
		tag := pin.Tags[ename]
		if pv, _ := vlib.Catch(func() { ttlv.RegisterEnum(tag, map[zzVerifExt]string{zzVerifExt(extNum): extName}) }); pv != nil {
			v("extension-register-panic", "RegisterEnum(%s, one vendor value) panicked: %v", ename, pv)
			continue
		}
		for vn, num := range pin.Enums[ename] {
			c.Eval([]byte(fmt.Sprint("ext", ename, vn)), true)
			if got := ttlv.EnumName(tag, num); got != vn {
				v("extension-drops-name", "after registering a vendor value on %s, EnumName(0x%08X) = %q, pinned %q", ename, num, got, vn)
			}
			if got, err := ttlv.EnumByName(tag, vn); err != nil || got != num {
				v("extension-drops-number", "after registering a vendor value on %s, EnumByName(%q) = 0x%08X (%v), pinned 0x%08X", ename, vn, got, err, num)
			}
		}
		if got := ttlv.EnumName(tag, extNum); got != extName {
			v("extension-not-named", "the vendor value registered on %s is written as %q", ename, got)
		}
		if got, err := ttlv.EnumByName(tag, extName); err != nil || got != extNum {
			v("extension-not-read", "the vendor value registered on %s reads back as 0x%08X (%v)", ename, got, err)
		}
	}
	const extTag, extTagName = 0x54AB01, "ZzVerifExtensionTag"
	if pv, _ := vlib.Catch(func() { ttlv.RegisterTag(extTagName, extTag) }); pv != nil {
		v("extension-register-panic", "RegisterTag panicked: %v", pv)
	}
	// a vendor enumeration type registered under its own tag but named like a standard one
	const vsTag, vsName = 0x54AB02, "ZzVerifVendorState"
	if pv, _ := vlib.Catch(func() {
		ttlv.RegisterTag(vsName, vsTag)
		ttlv.RegisterEnum(vsTag, map[State]string{1: "ZzPrimary", 2: "ZzSecondary"})
	}); pv != nil {
		v("extension-register-panic", "registering the vendor enumeration panicked: %v", pv)
	} else {
		for _, enc := range []struct {
			n string
			m func(any) []byte
			u func([]byte, any) error
		}{{"xml", ttlv.MarshalXML, ttlv.UnmarshalXML}, {"json", ttlv.MarshalJSON, ttlv.UnmarshalJSON}} {
			for num, want := range map[State]string{1: "ZzPrimary", 2: "ZzSecondary"} {
				c.Eval([]byte(fmt.Sprint("vendor-type", enc.n, num)), true)
				var doc []byte
				if pv, _ := vlib.Catch(func() { doc = enc.m(num) }); pv != nil {
					v("extension-vendor-type:"+enc.n, "writing the vendor enumeration value %d panicked: %v", num, pv)
					continue
				}
				if !strings.Contains(string(doc), vsName) || !strings.Contains(string(doc), want) {
					v("extension-vendor-type:"+enc.n, "a value of the vendor enumeration type (Go name State, registered under %s) is written as %s; expected tag %s and name %s", vsName, doc, vsName, want)
					continue
				}
				var back State
				if pv, _ := vlib.Catch(func() { err = enc.u(doc, &back) }); pv != nil || err != nil || back != num {
					v("extension-vendor-type:"+enc.n, "the vendor enumeration value written as %s reads back as %d (err %v, panic %v)", doc, back, err, pv)
				}
			}
		}
	}
	live := LiveRegistry()
	for name, num := range pin.Tags {
		if live.Tags[name] != num {
			v("extension-changes-tag", "after the extensions, tag %s is 0x%06X, pinned 0x%06X", name, live.Tags[name], num)
		}
	}
	for name, num := range live.Tags {
		if _, ok := pin.Tags[name]; !ok && !(name == extTagName && num == extTag) && !(name == vsName && num == vsTag) {
			v("extension-adds-tag", "after the extensions, unexpected tag %s (0x%06X)", name, num)
		}
	}
	for ename, vals := range pin.Enums {
		lv := live.Enums[ename]
		for vn, num := range vals {
			if got, ok := lv[vn]; !ok || got != num {
				v("extension-changes-enum", "after the extensions, %s.%s is 0x%08X (present %v), pinned 0x%08X", ename, vn, got, ok, num)
			}
		}
		for vn, num := range lv {
			if _, ok := vals[vn]; !ok && !(vn == extName && num == extNum) {
				v("extension-adds-enum-value", "after the extensions, unexpected value %s.%s (0x%08X)", ename, vn, num)
			}
		}
	}
	for mname, flags := range pin.Masks {
		if fmt.Sprint(live.Masks[mname]) != fmt.Sprint(flags) {
			v("extension-changes-mask", "after the extensions, mask %s has flags %v, pinned %v", mname, live.Masks[mname], flags)
		}
	}
	c.Extra["extension_histories"] = len(enames) + 1
}

func repoRoot() string {
	if r := os.Getenv("REPO"); r != "" {
		return r
	}
	return "/repo"
}

// c17Vectors checks the pinned registry against the names that occur in the OASIS conformance vectors.
func c17Vectors(c *vlib.Check, pin *Registry, v func(sig, format string, a ...any)) {
	root := filepath.Join(repoRoot(), "kmiptest", "testdata")
	files, _ := filepath.Glob(filepath.Join(root, "*", "*.xml"))
	elems, enumVals, maskVals := 0, 0, 0
	isNum := regexp.MustCompile(`^(0x[0-9A-Fa-f]+|[0-9]+)$`)
	for _, f := range files {
		b, err := os.ReadFile(f)
		if err != nil {
			continue
		}
		dec := xml.NewDecoder(bytes.NewReader(b))
		for {
			tok, err := dec.Token()
			if err != nil {
				break
			}
			se, ok := tok.(xml.StartElement)
			if !ok {
				continue
			}
			name := se.Name.Local
			if name == "KMIP" || name == "TTLV" {
				continue
			}
			elems++
			if _, ok := pin.Tags[name]; !ok {
				v("vector-element-unknown", "element <%s> of %s is not a pinned tag", name, filepath.Base(f))
				continue
			}
			var ty, val string
			for _, a := range se.Attr {
				switch a.Name.Local {
				case "type":
					ty = a.Value
				case "value":
					val = a.Value
				}
			}
			if ty == "Enumeration" && !isNum.MatchString(val) {
				if ev, ok := pin.Enums[name]; ok {
					enumVals++
					if _, ok := ev[val]; !ok {
						v("vector-enum-name-unknown", "%s value %q (in %s) is not in the pinned registry", name, val, filepath.Base(f))
					}
				}
			}
			if ty == "Integer" && pin.Masks[name] != nil && !isNum.MatchString(val) {
				for _, part := range strings.Fields(val) {
					maskVals++
					found := isNum.MatchString(part)
					for _, fl := range pin.Masks[name] {
						if fl == part {
							found = true
						}
					}
					if !found {
						v("vector-mask-name-unknown", "%s flag %q (in %s) is not in the pinned registry", name, part, filepath.Base(f))
					}
				}
			}
		}
	}
	c.Extra["oasis_crosscheck"] = map[string]any{"files": len(files), "elements_checked": elems, "enumeration_names_checked": enumVals, "mask_names_checked": maskVals}
}
