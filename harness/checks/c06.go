package checks

import (
	"bytes"
	"encoding/hex"
	"fmt"
	"math/big"
	"reflect"

	"github.com/ovh/kmip-go"
	"github.com/ovh/kmip-go/payloads"
	"github.com/ovh/kmip-go/ttlv"
	"verifharness/msg"
	"verifharness/pinned"
	"verifharness/reftext"
	"verifharness/refttlv"
	"verifharness/vlib"
)

func init() { All["C06"] = Spec{"exploration", runC06} }

func tg(name string) uint32 { return uint32(pinned.Reg().Tags[name]) }

func nInt(tag uint32, v int64) *refttlv.Node {
	return &refttlv.Node{Tag: tag, Type: refttlv.TInteger, I: v}
}
func nEnum(tag uint32, v uint32) *refttlv.Node {
	return &refttlv.Node{Tag: tag, Type: refttlv.TEnumeration, I: int64(v)}
}
func nText(tag uint32, s string) *refttlv.Node {
	return &refttlv.Node{Tag: tag, Type: refttlv.TTextString, S: []byte(s)}
}
func nStruct(tag uint32, kids ...*refttlv.Node) *refttlv.Node {
	return &refttlv.Node{Tag: tag, Type: refttlv.TStructure, Kids: kids}
}

func header(resp bool) *refttlv.Node {
	pv := nStruct(tg("ProtocolVersion"), nInt(tg("ProtocolVersionMajor"), 1), nInt(tg("ProtocolVersionMinor"), 4))
	if resp {
		return nStruct(tg("ResponseHeader"), pv, &refttlv.Node{Tag: tg("TimeStamp"), Type: refttlv.TDateTime, I: 1700000000}, nInt(tg("BatchCount"), 1))
	}
	return nStruct(tg("RequestHeader"), pv, nInt(tg("BatchCount"), 1))
}

func message(resp bool, item *refttlv.Node) *refttlv.Node {
	if resp {
		return nStruct(tg("ResponseMessage"), header(true), item)
	}
	return nStruct(tg("RequestMessage"), header(false), item)
}

type c06enc struct {
	name      string
	write     func(*refttlv.Node) []byte
	unmarshal func([]byte, any) error
}

var c06encs = []c06enc{
	{"ttlv", refttlv.Generate, ttlv.UnmarshalTTLV},
	{"xml", reftext.TreeToXML, ttlv.UnmarshalXML},
	{"json", reftext.TreeToJSON, ttlv.UnmarshalJSON},
}

func runC06(c *vlib.Check) {
	c.Rule = "(A) operation codes 0..65535 and {2^31-1, 2^31, 2^32-1} x {request, response} x {binary, XML, JSON}: registered codes carry the rich payload of the operation, the others an opaque structure; " +
		"(B) object types 0..255 and 2^32-1 inside Get response / Register request / Import request / Export response (also with an Object Type attribute naming another type, and without one), with the matching object and with a mismatching one; " +
		"(C) the 50 standard attribute names x a value of each of the 10 TTLV kinds, plus custom x-/y- and unknown names x 10 kinds. Inputs are produced by the independent generator / writers. " +
		"(D) opaque preservation over the generic tree alphabet (every leaf class, nesting to depth 3, adjacent sibling structures, all pairs of representatives): each structure as payload of 3 unregistered operations " +
		"(request and response) and each tree as value of 2 custom attributes, three encodings, re-encoded bytes must equal the independent generator's. distinct = distinct input documents"
	c.Assumptions = []string{"the table operation -> payload types is the harness' hand-maintained list of the 27 implemented operations (msg.PayloadTypes)",
		"operation code 0 is not an enumeration value and is left out"}
	// ---------- (A) operations
	codes := []uint32{}
	maxCode := uint32(65535)
	if c.Thorough() {
		maxCode = 1<<20 - 1
		for _, hi := range []uint32{0x80000000, 0xFFFF0000, 0x00FF0000, 0x7F000000} { // high-half codes colliding with registered low parts
			for lo := uint32(0); lo <= 0x2F; lo++ {
				codes = append(codes, hi|lo)
			}
		}
	}
	for i := uint32(1); i <= maxCode; i++ {
		codes = append(codes, i)
	}
	codes = append(codes, 1<<31-1, 1<<31, 1<<32-1)
	proj := &msg.Projector{Ver: [2]int{1, 4}, Gate: true}
	payloadTree := map[[2]any]*refttlv.Node{}
	for op := range msg.PayloadTypes {
		rq := msg.BaselineRequest(op, kmip.V1_4)
		t, err := proj.Project(rq)
		if err != nil {
			panic(err)
		}
		payloadTree[[2]any{op, false}] = t.Kids[1].Kids[len(t.Kids[1].Kids)-2] // BatchItem: Operation, ID, RequestPayload, MessageExtension
		rs := msg.BaselineResponse(op, kmip.V1_4)
		t, err = proj.Project(rs)
		if err != nil {
			panic(err)
		}
		payloadTree[[2]any{op, true}] = t.Kids[1].Kids[len(t.Kids[1].Kids)-2]
	}
	const block = 512
	vlib.Parallel((len(codes)+block-1)/block, 0, func(b int) {
		for i := b * block; i < (b+1)*block && i < len(codes); i++ {
			code := codes[i]
			for _, resp := range []bool{false, true} {
				plTag := tg("RequestPayload")
				if resp {
					plTag = tg("ResponsePayload")
				}
				want, registered := msg.PayloadTypes[kmip.Operation(code)]
				var pl *refttlv.Node
				if registered {
					pl = payloadTree[[2]any{kmip.Operation(code), resp}]
				} else {
					pl = nStruct(plTag, nText(tg("UniqueIdentifier"), "x"), nInt(0x540001, 5))
				}
				// item variants: the optional elements that may stand between the fixed ones and the payload (a unique batch item
				// ID; on a successful response also a result reason and a result message) - for the registered codes and a few others
				nvar := 1
				if registered || (code >= 0x30 && code <= 0x32) {
					nvar = 3
				}
				for variant := 0; variant < nvar; variant++ {
					kids := []*refttlv.Node{nEnum(tg("Operation"), code)}
					if variant == 2 {
						kids = append(kids, &refttlv.Node{Tag: tg("UniqueBatchItemID"), Type: refttlv.TByteString, S: []byte{0xB1, 0x7E}})
					}
					if resp {
						kids = append(kids, nEnum(tg("ResultStatus"), 0))
						if variant == 2 {
							kids = append(kids, nEnum(tg("ResultReason"), uint32(kmip.ResultReasonGeneralFailure)))
						}
						if variant >= 1 {
							kids = append(kids, nText(tg("ResultMessage"), "done, with a remark"))
						}
					} else if variant == 1 {
						kids = append(kids, &refttlv.Node{Tag: tg("UniqueBatchItemID"), Type: refttlv.TByteString, S: []byte{1}})
					}
					kids = append(kids, pl)
					tree := message(resp, nStruct(tg("BatchItem"), kids...))
					bin := refttlv.Generate(tree)
					for _, e := range c06encs {
						doc := e.write(tree)
						c.Eval(append([]byte(e.name), doc...), true)
						label := fmt.Sprintf("operation 0x%08X %s %s (item variant %d)", code, map[bool]string{false: "request", true: "response"}[resp], e.name, variant)
						rep := map[string]any{"kind": "document", "encoding": e.name, "case": label, "binary_hex": hex.EncodeToString(bin)}
						if i == 5 && !resp {
							c.Sample(map[string]any{"case": label, "document": short(string(doc), 300)})
						}
						var m any = &kmip.RequestMessage{}
						if resp {
							m = &kmip.ResponseMessage{}
						}
						var err error
						if pv, site := vlib.Catch(func() { err = e.unmarshal(append([]byte{}, doc...), m) }); pv != nil {
							c.Violation("op:decode-panic:"+site, fmt.Sprintf("%s: %v", label, pv), rep)
							continue
						}
						if err != nil {
							c.Violation("op:decode-error:"+regClass(registered)+":"+e.name+":"+ErrClass(err), fmt.Sprintf("%s: %v", label, err), rep)
							continue
						}
						var got kmip.OperationPayload
						if resp {
							got = m.(*kmip.ResponseMessage).BatchItem[0].ResponsePayload
						} else {
							got = m.(*kmip.RequestMessage).BatchItem[0].RequestPayload
						}
						if got == nil {
							c.Violation("op:payload-dropped:"+regClass(registered), fmt.Sprintf("%s: payload is nil after decoding", label), rep)
							continue
						}
						if registered {
							wt := want[0]
							if resp {
								wt = want[1]
							}
							if reflect.TypeOf(got) != reflect.PointerTo(wt) {
								c.Violation("op:wrong-payload-type", fmt.Sprintf("%s: decoded to %T, registered type is *%s", label, got, wt.Name()), rep)
								continue
							}
						} else if _, ok := got.(*kmip.UnknownPayload); !ok {
							c.Violation("op:unknown-not-opaque", fmt.Sprintf("%s: unregistered operation decoded to %T", label, got), rep)
							continue
						}
						if got.Operation() != kmip.Operation(code) {
							c.Violation("op:payload-reports-other-operation", fmt.Sprintf("%s: payload reports operation 0x%X", label, uint32(got.Operation())), rep)
							continue
						}
						var re []byte
						if pv, site := vlib.Catch(func() { re = ttlv.MarshalTTLV(m) }); pv != nil {
							c.Violation("op:reencode-panic:"+site, fmt.Sprintf("%s: %v", label, pv), rep)
							continue
						}
						if !bytes.Equal(re, bin) {
							c.Violation("op:reencode-differs:"+regClass(registered)+":"+e.name, fmt.Sprintf("%s: re-encoding differs from the original bytes", label), rep)
						}
					}
				}
			}
		}
	})
	// ---------- (B) object types
	objs := msg.Objects()
	objTree := map[kmip.ObjectType]*refttlv.Node{}
	objGo := map[kmip.ObjectType]reflect.Type{}
	for _, o := range objs {
		t, err := proj.Project(o)
		if err != nil {
			panic(err)
		}
		objTree[o.ObjectType()] = t
		objGo[o.ObjectType()] = reflect.TypeOf(o)
	}
	ots := []uint32{}
	maxOT := uint32(255)
	if c.Thorough() {
		maxOT = 4095
	}
	for i := uint32(0); i <= maxOT; i++ {
		ots = append(ots, i)
	}
	for _, hi := range []uint32{0x100, 0x10000, 0x80000000, 0xFFFFFF00} { // object types colliding with registered ones in the low byte
		for lo := uint32(0); lo <= 9; lo++ {
			ots = append(ots, hi|lo)
		}
	}
	ots = append(ots, 1<<32-1)
	type carrier struct {
		name string
		resp bool
		op   kmip.Operation
		mk   func(ot uint32, obj *refttlv.Node) *refttlv.Node
		get  func(m any) kmip.Object
	}
	attrOT := func(ot uint32) *refttlv.Node {
		return nStruct(tg("Attribute"), nText(tg("AttributeName"), "Object Type"), nEnum(tg("AttributeValue"), ot))
	}
	carriers := []carrier{
		{"Get response", true, kmip.OperationGet, func(ot uint32, obj *refttlv.Node) *refttlv.Node {
			return nStruct(tg("ResponsePayload"), nEnum(tg("ObjectType"), ot), nText(tg("UniqueIdentifier"), "id"), obj)
		}, func(m any) kmip.Object {
			return m.(*kmip.ResponseMessage).BatchItem[0].ResponsePayload.(*payloads.GetResponsePayload).Object
		}},
		{"Export response", true, kmip.OperationExport, func(ot uint32, obj *refttlv.Node) *refttlv.Node {
			return nStruct(tg("ResponsePayload"), nEnum(tg("ObjectType"), ot), nText(tg("UniqueIdentifier"), "id"), attrOT(ot), obj)
		}, func(m any) kmip.Object {
			return m.(*kmip.ResponseMessage).BatchItem[0].ResponsePayload.(*payloads.ExportResponsePayload).Object
		}},
		// the Export response names the object's type a second time, in the attribute list: the Object Type field decides
		{"Export response whose attribute list names another object type", true, kmip.OperationExport, func(ot uint32, obj *refttlv.Node) *refttlv.Node {
			other := uint32(kmip.ObjectTypeSecretData)
			if ot == other {
				other = uint32(kmip.ObjectTypeSymmetricKey)
			}
			return nStruct(tg("ResponsePayload"), nEnum(tg("ObjectType"), ot), nText(tg("UniqueIdentifier"), "id"), attrOT(other), obj)
		}, func(m any) kmip.Object {
			return m.(*kmip.ResponseMessage).BatchItem[0].ResponsePayload.(*payloads.ExportResponsePayload).Object
		}},
		{"Export response without Object Type attribute", true, kmip.OperationExport, func(ot uint32, obj *refttlv.Node) *refttlv.Node {
			return nStruct(tg("ResponsePayload"), nEnum(tg("ObjectType"), ot), nText(tg("UniqueIdentifier"), "id"), obj)
		}, func(m any) kmip.Object {
			return m.(*kmip.ResponseMessage).BatchItem[0].ResponsePayload.(*payloads.ExportResponsePayload).Object
		}},
		{"Register request", false, kmip.OperationRegister, func(ot uint32, obj *refttlv.Node) *refttlv.Node {
			return nStruct(tg("RequestPayload"), nEnum(tg("ObjectType"), ot), nStruct(tg("TemplateAttribute")), obj)
		}, func(m any) kmip.Object {
			return m.(*kmip.RequestMessage).BatchItem[0].RequestPayload.(*payloads.RegisterRequestPayload).Object
		}},
		{"Import request", false, kmip.OperationImport, func(ot uint32, obj *refttlv.Node) *refttlv.Node {
			return nStruct(tg("RequestPayload"), nText(tg("UniqueIdentifier"), "id"), attrOT(ot), obj)
		}, func(m any) kmip.Object {
			return m.(*kmip.RequestMessage).BatchItem[0].RequestPayload.(*payloads.ImportRequestPayload).Object
		}},
	}
	for _, cr := range carriers {
		for _, ot := range ots {
			for variant, objNode := range map[string]*refttlv.Node{"matching": objTree[kmip.ObjectType(ot)], "symmetric-key": objTree[kmip.ObjectTypeSymmetricKey], "public-key": objTree[kmip.ObjectTypePublicKey]} {
				if objNode == nil {
					continue
				}
				kids := []*refttlv.Node{nEnum(tg("Operation"), uint32(cr.op))}
				if cr.resp {
					kids = append(kids, nEnum(tg("ResultStatus"), 0))
				}
				kids = append(kids, cr.mk(ot, objNode))
				tree := message(cr.resp, nStruct(tg("BatchItem"), kids...))
				for _, e := range c06encs {
					doc := e.write(tree)
					c.Eval(append([]byte(e.name), doc...), true)
					label := fmt.Sprintf("%s object type 0x%X with %s object, %s", cr.name, ot, variant, e.name)
					rep := map[string]any{"kind": "document", "encoding": e.name, "case": label, "binary_hex": hex.EncodeToString(refttlv.Generate(tree))}
					var m any = &kmip.RequestMessage{}
					if cr.resp {
						m = &kmip.ResponseMessage{}
					}
					var err error
					if pv, site := vlib.Catch(func() { err = e.unmarshal(append([]byte{}, doc...), m) }); pv != nil {
						c.Violation("object:decode-panic:"+site, fmt.Sprintf("%s: %v", label, pv), rep)
						continue
					}
					wantT, known := objGo[kmip.ObjectType(ot)]
					if err != nil {
						if known && objNode == objTree[kmip.ObjectType(ot)] {
							c.Violation("object:matching-object-rejected:"+cr.name+":"+e.name, fmt.Sprintf("%s: %v", label, err), rep)
						}
						continue
					}
					var obj kmip.Object
					if pv, _ := vlib.Catch(func() { obj = cr.get(m) }); pv != nil {
						c.Violation("object:payload-shape", fmt.Sprintf("%s: %v", label, pv), rep)
						continue
					}
					if !known {
						c.Violation("object:unknown-type-accepted:"+cr.name, fmt.Sprintf("%s: unknown object type decoded to %T instead of an error", label, obj), rep)
						continue
					}
					if reflect.TypeOf(obj) != wantT {
						c.Violation("object:wrong-go-type:"+cr.name, fmt.Sprintf("%s: decoded to %T, object type names %s", label, obj, wantT), rep)
					}
				}
			}
		}
	}
	// ---------- (C) attributes
	kinds := []*refttlv.Node{
		{Type: refttlv.TStructure, Kids: []*refttlv.Node{nInt(0x540001, 1)}},
		{Type: refttlv.TInteger, I: 3}, {Type: refttlv.TLongInteger, I: 1 << 40}, {Type: refttlv.TBigInteger, Big: big.NewInt(-129)},
		{Type: refttlv.TEnumeration, I: 2}, {Type: refttlv.TBoolean, I: 1}, {Type: refttlv.TTextString, S: []byte("txt")}, {Type: refttlv.TByteString, S: []byte{1, 2, 3}},
		{Type: refttlv.TDateTime, I: 1700000000}, {Type: refttlv.TInterval, I: 60},
	}
	type attrCase struct {
		name  string
		std   *kmip.Attribute
		value *refttlv.Node
		exact bool // value is the well-typed sample of the standard attribute
	}
	var acases []attrCase
	for _, a := range msg.StdAttributes() {
		a := a
		at, err := proj.Project(&a)
		if err != nil {
			panic(err)
		}
		exact := at.Kids[len(at.Kids)-1]
		acases = append(acases, attrCase{string(a.AttributeName), &a, exact, true})
		for _, k := range kinds {
			kk := *k
			kk.Tag = tg("AttributeValue")
			acases = append(acases, attrCase{string(a.AttributeName), &a, &kk, false})
		}
	}
	for _, name := range []string{"x-custom", "y-custom", "Vendor Specific", "", "object type", "Name "} {
		for _, k := range kinds {
			kk := *k
			kk.Tag = tg("AttributeValue")
			acases = append(acases, attrCase{name, nil, &kk, false})
		}
	}
	for _, ac := range acases {
		tree := nStruct(tg("Attribute"), nText(tg("AttributeName"), ac.name), ac.value)
		bin := refttlv.Generate(tree)
		for _, e := range c06encs {
			doc := e.write(tree)
			c.Eval(append([]byte(e.name), doc...), true)
			label := fmt.Sprintf("attribute %q with a %s value, %s", ac.name, typeName(ac.value.Type), e.name)
			rep := map[string]any{"kind": "document", "encoding": e.name, "case": label, "binary_hex": hex.EncodeToString(bin)}
			var a kmip.Attribute
			var err error
			if pv, site := vlib.Catch(func() { err = e.unmarshal(append([]byte{}, doc...), &a) }); pv != nil {
				c.Violation("attr:decode-panic:"+site, fmt.Sprintf("%s: %v", label, pv), rep)
				continue
			}
			if ac.std != nil {
				wantT := reflect.TypeOf(ac.std.AttributeValue)
				if err != nil {
					if ac.exact {
						c.Violation("attr:well-typed-value-rejected:"+e.name, fmt.Sprintf("%s: %v", label, err), rep)
					}
					continue
				}
				if reflect.TypeOf(a.AttributeValue) != wantT {
					c.Violation("attr:wrong-go-type", fmt.Sprintf("%s: decoded to %T, the attribute is specified as %s", label, a.AttributeValue, wantT), rep)
				}
				continue
			}
			if err != nil {
				c.Violation("attr:custom-rejected:"+e.name+":"+ErrClass(err), fmt.Sprintf("%s: %v", label, err), rep)
				continue
			}
			var re []byte
			if pv, site := vlib.Catch(func() { re = ttlv.MarshalTTLV(&a) }); pv != nil {
				c.Violation("attr:reencode-panic:"+site, fmt.Sprintf("%s: %v", label, pv), rep)
				continue
			}
			if !bytes.Equal(re, bin) {
				c.Violation("attr:custom-reencode-differs:"+e.name+":"+typeName(ac.value.Type), fmt.Sprintf("%s: re-encoding differs from the original bytes", label), rep)
			}
		}
	}
	c06Opaque(c)
	c.Exhaustive = true
}

func regClass(r bool) string {
	if r {
		return "registered"
	}
	return "unregistered"
}

func typeName(t byte) string {
	return map[byte]string{1: "Structure", 2: "Integer", 3: "LongInteger", 4: "BigInteger", 5: "Enumeration", 6: "Boolean", 7: "TextString", 8: "ByteString", 9: "DateTime", 10: "Interval"}[t]
}
