package checks

import (
	"bytes"
	"encoding/hex"
	"fmt"

	"github.com/ovh/kmip-go/ttlv"
	"verifharness/conv"
	"verifharness/enum"
	"verifharness/refttlv"
	"verifharness/vlib"
)

func init() { All["C03"] = Spec{"exploration", runC03} }

func runC03(c *vlib.Check) {
	c.Rule = "generic TTLV trees: every leaf of the scalar alphabets (10 types; integer extremes; big integers around byte and 8-byte " +
		"boundaries, both signs; string lengths covering every length mod 8) under 5 tags; each leaf at first/middle/last position " +
		"and nested to depth 3; every tree with an empty structure or byte string also with that value held as a nil slice; all ordered pairs (thorough: triples) of 15 representative items. distinct = distinct reference encodings"
	c.Assumptions = []string{"refttlv (independent parser/generator written from KMIP 1.4 §9.1) is the judge of well-formedness",
		"intervals restricted to [0,2^32) s and dates to whole seconds, as the property states"}
	var trees []*enum.N
	enum.Trees(c.Thorough(), func(n *enum.N) { trees = append(trees, n) })
	enum.BigTrees(func(n *enum.N) { trees = append(trees, n) })
	enum.BinaryTextTrees(func(n *enum.N) { trees = append(trees, n) })
	vlib.Parallel(len(trees), 0, func(i int) { c03One(c, trees[i], i) })
	c.Exhaustive = true
}

// c03Dirty: what a reused encoder has encoded before (every byte of its buffer non-zero where it matters).
var c03Dirty = ttlv.Value{Tag: 0x420069, Value: ttlv.Struct{{Tag: 0x420008, Value: bytes.Repeat([]byte{0xA5}, 4099)}, {Tag: 0x42000A, Value: string(bytes.Repeat([]byte{0x7E}, 333))}}}

func c03One(c *vlib.Check, t *enum.N, idx int) {
	ref := refttlv.Generate(t)
	c.Eval(ref, true)
	rep := map[string]any{"kind": "tree", "tree": t.String(), "ref_hex": hex.EncodeToString(ref)}
	if idx%997 == 0 {
		c.Sample(map[string]any{"tree": t.String(), "ref_hex": hex.EncodeToString(ref)})
	}
	tname := fmt.Sprintf("type%d", leafType(t))
	var out []byte
	if pv, site := vlib.Catch(func() { out = ttlv.MarshalTTLV(conv.ToValue(t)) }); pv != nil {
		c.Violation("encode-panic:"+site, fmt.Sprintf("MarshalTTLV panicked: %v on %s", pv, t), rep)
		return
	}
	rep["lib_hex"] = hex.EncodeToString(out)
	p, err := refttlv.ParseStrict(out)
	if err != nil {
		c.Violation("not-wellformed:"+tname+":"+ErrClass(err), fmt.Sprintf("independent parser rejects library output: %v; tree %s", err, t), rep)
		return
	}
	if !refttlv.Equal(p, t) {
		c.Violation("value-differs:"+tname, fmt.Sprintf("independent parser reads %s from the encoding of %s", p, t), rep)
		return
	}
	if !bytes.Equal(out, ref) {
		c.Violation("bytes-differ:"+tname, fmt.Sprintf("library bytes differ from canonical encoding for %s", t), rep)
		return
	}
	// the same values held as Go zero values: an empty structure as a nil ttlv.Struct, an empty byte string as a nil slice
	if conv.HasEmpty(t) {
		var nout []byte
		if pv, site := vlib.Catch(func() { nout = ttlv.MarshalTTLV(conv.ToValueNil(t)) }); pv != nil {
			c.Violation("encode-panic:nil-empty:"+site, fmt.Sprintf("MarshalTTLV panicked: %v on %s with its empty values held as nil slices", pv, t), rep)
			return
		}
		c.Eval(append([]byte("nil:"), ref...), true)
		if !bytes.Equal(nout, ref) {
			rep["nil_hex"] = hex.EncodeToString(nout)
			c.Violation("bytes-differ:nil-empty:"+tname, fmt.Sprintf("%s with its empty structures / byte strings held as nil slices is encoded differently (the item is present, of length 0)", t), rep)
			return
		}
	}
	// the same through a reused encoder: a previous, longer message full of non-zero bytes, Clear(), then this tree
	var reused []byte
	if pv, site := vlib.Catch(func() {
		enc := ttlv.NewTTLVEncoder()
		enc.Any(c03Dirty)
		enc.Clear()
		enc.Any(conv.ToValue(t))
		reused = append([]byte{}, enc.Bytes()...)
	}); pv != nil {
		c.Violation("encode-panic:reused:"+site, fmt.Sprintf("encoding on a reused encoder panicked: %v on %s", pv, t), rep)
		return
	}
	if !bytes.Equal(reused, ref) {
		rep["reused_hex"] = hex.EncodeToString(reused)
		if _, err := refttlv.ParseStrict(reused); err != nil {
			c.Violation("not-wellformed:reused-encoder:"+tname+":"+ErrClass(err), fmt.Sprintf("the encoding produced by a reused (cleared) encoder is rejected by the independent parser: %v; tree %s", err, t), rep)
		} else {
			c.Violation("bytes-differ:reused-encoder:"+tname, fmt.Sprintf("a reused (cleared) encoder produces different bytes for %s", t), rep)
		}
		return
	}
	// reverse direction: the independent generator's encoding decodes to the same tree
	var v ttlv.Value
	buf := append([]byte{}, ref...)
	var derr error
	if pv, site := vlib.Catch(func() { derr = ttlv.UnmarshalTTLV(buf, &v) }); pv != nil {
		c.Violation("decode-panic:"+site, fmt.Sprintf("UnmarshalTTLV panicked: %v on %s", pv, t), rep)
		return
	}
	if derr != nil {
		c.Violation("decode-reject:"+tname+":"+ErrClass(derr), fmt.Sprintf("library rejects reference encoding of %s: %v", t, derr), rep)
		return
	}
	back, err := conv.FromValue(v)
	if err != nil || !refttlv.Equal(back, t) {
		c.Violation("decode-differs:"+tname, fmt.Sprintf("library decodes reference encoding of %s to %v (%v)", t, back, err), rep)
	}
}

// leafType returns the type of the "interesting" item of a tree: the deepest first non-sentinel leaf.
func leafType(t *enum.N) byte {
	if t.Type != refttlv.TStructure || len(t.Kids) == 0 {
		return t.Type
	}
	for _, k := range t.Kids {
		if k.Tag == 0x42000A && k.Type == refttlv.TTextString && string(k.S) == "x" {
			continue
		}
		return leafType(k)
	}
	return t.Type
}
