package checks

import (
	"bytes"
	"encoding/hex"
	"fmt"

	"github.com/ovh/kmip-go"
	"github.com/ovh/kmip-go/ttlv"
	"verifharness/enum"
	"verifharness/msg"
	"verifharness/refttlv"
	"verifharness/vlib"
)

// c06Opaque: the "preserved as opaque TTLV that re-encodes byte-identically" clause over the generic tree
// alphabet (enum.Trees: every leaf class, nesting, adjacent sibling structures, pairs/triples): each generic
// structure becomes (a) the payload of an unregistered operation, request and response, and (b) the value of a
// custom attribute; every scalar leaf becomes a custom attribute value. Three encodings each.
func c06Opaque(c *vlib.Check) {
	var shapes []*refttlv.Node
	enum.Trees(c.Thorough(), func(n *enum.N) { shapes = append(shapes, n) })
	codes := []uint32{0x30, 0x80000001}
	for code := uint32(1); code < 0x30; code++ { // first named-but-unimplemented operation
		if _, ok := msg.PayloadTypes[kmip.Operation(code)]; !ok {
			codes = append(codes, code)
			break
		}
	}
	retag := func(n *refttlv.Node, tag uint32) *refttlv.Node {
		k := *n
		k.Tag = tag
		return &k
	}
	const block = 256
	vlib.Parallel((len(shapes)+block-1)/block, 0, func(b int) {
		for i := b * block; i < (b+1)*block && i < len(shapes); i++ {
			sh := shapes[i]
			if sh.Type == refttlv.TStructure {
				for _, code := range codes {
					for _, resp := range []bool{false, true} {
						plTag := tg("RequestPayload")
						if resp {
							plTag = tg("ResponsePayload")
						}
						kids := []*refttlv.Node{nEnum(tg("Operation"), code)}
						if resp {
							kids = append(kids, nEnum(tg("ResultStatus"), 0))
						}
						kids = append(kids, retag(sh, plTag))
						tree := message(resp, nStruct(tg("BatchItem"), kids...))
						bin := refttlv.Generate(tree)
						for _, e := range c06encs {
							doc := e.write(tree)
							c.Eval(append([]byte(e.name), doc...), true)
							label := fmt.Sprintf("operation 0x%08X %s %s with opaque payload %s", code, map[bool]string{false: "request", true: "response"}[resp], e.name, short(sh.String(), 160))
							rep := map[string]any{"kind": "document", "encoding": e.name, "case": label, "binary_hex": hex.EncodeToString(bin)}
							var m any = &kmip.RequestMessage{}
							if resp {
								m = &kmip.ResponseMessage{}
							}
							var err error
							if pv, site := vlib.Catch(func() { err = e.unmarshal(append([]byte{}, doc...), m) }); pv != nil {
								c.Violation("op:decode-panic:"+site, fmt.Sprintf("%s: %v", label, pv), rep)
								continue
							}
							if err != nil {
								c.Violation("op:decode-error:unregistered:"+e.name+":"+ErrClass(err), fmt.Sprintf("%s: %v", label, err), rep)
								continue
							}
							var got kmip.OperationPayload
							if resp {
								got = m.(*kmip.ResponseMessage).BatchItem[0].ResponsePayload
							} else {
								got = m.(*kmip.RequestMessage).BatchItem[0].RequestPayload
							}
							if _, ok := got.(*kmip.UnknownPayload); !ok {
								c.Violation("op:unknown-not-opaque", fmt.Sprintf("%s: unregistered operation decoded to %T", label, got), rep)
								continue
							}
							var re []byte
							if pv, site := vlib.Catch(func() { re = ttlv.MarshalTTLV(m) }); pv != nil {
								c.Violation("op:reencode-panic:"+site, fmt.Sprintf("%s: %v", label, pv), rep)
								continue
							}
							if !bytes.Equal(re, bin) {
								c.Violation("op:reencode-differs:unregistered:"+e.name, fmt.Sprintf("%s: re-encoding differs from the original bytes", label), rep)
							}
						}
					}
				}
			}
			// custom attribute value of this shape
			for _, name := range []string{"x-custom", "Vendor Specific"} {
				tree := nStruct(tg("Attribute"), nText(tg("AttributeName"), name), retag(sh, tg("AttributeValue")))
				bin := refttlv.Generate(tree)
				for _, e := range c06encs {
					doc := e.write(tree)
					c.Eval(append([]byte(e.name), doc...), true)
					label := fmt.Sprintf("attribute %q with opaque value %s, %s", name, short(sh.String(), 160), e.name)
					rep := map[string]any{"kind": "document", "encoding": e.name, "case": label, "binary_hex": hex.EncodeToString(bin)}
					var a kmip.Attribute
					var err error
					if pv, site := vlib.Catch(func() { err = e.unmarshal(append([]byte{}, doc...), &a) }); pv != nil {
						c.Violation("attr:decode-panic:"+site, fmt.Sprintf("%s: %v", label, pv), rep)
						continue
					}
					if err != nil {
						c.Violation("attr:custom-rejected:"+e.name+":"+ErrClass(err), fmt.Sprintf("%s: %v", label, err), rep)
						continue
					}
					var re []byte
					if pv, site := vlib.Catch(func() { re = ttlv.MarshalTTLV(&a) }); pv != nil {
						c.Violation("attr:reencode-panic:"+site, fmt.Sprintf("%s: %v", label, pv), rep)
						continue
					}
					if !bytes.Equal(re, bin) {
						c.Violation("attr:custom-reencode-differs:"+e.name+":"+typeName(sh.Type), fmt.Sprintf("%s: re-encoding differs from the original bytes", label), rep)
					}
				}
			}
		}
	})
	c.Extra["opaque_shapes"] = len(shapes)
}
