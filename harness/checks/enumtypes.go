package checks

import (
	"reflect"

	"github.com/ovh/kmip-go"
	"verifharness/msg"
	"verifharness/pinned"
)

// reachableEnumTypes walks every struct type reachable from the messages, payloads, objects and attribute
// values and returns the named uint32 types that carry a pinned enumeration (keyed by type name).
func reachableEnumTypes() map[string]reflect.Type {
	out := map[string]reflect.Type{}
	seen := map[reflect.Type]bool{}
	var walk func(t reflect.Type)
	walk = func(t reflect.Type) {
		if seen[t] {
			return
		}
		seen[t] = true
		switch t.Kind() {
		case reflect.Pointer, reflect.Slice, reflect.Array:
			walk(t.Elem())
		case reflect.Struct:
			for i := 0; i < t.NumField(); i++ {
				walk(t.Field(i).Type)
			}
		case reflect.Uint32:
			if _, ok := pinned.Reg().Enums[t.Name()]; ok {
				out[t.Name()] = t
			}
		}
	}
	walk(reflect.TypeFor[kmip.RequestMessage]())
	walk(reflect.TypeFor[kmip.ResponseMessage]())
	for _, pt := range msg.PayloadTypes {
		walk(pt[0])
		walk(pt[1])
	}
	for _, o := range msg.Objects() {
		walk(reflect.TypeOf(o))
	}
	for _, a := range msg.StdAttributes() {
		walk(reflect.TypeOf(a.AttributeValue))
	}
	// enumeration types not reachable through a field (named explicitly; a removed type breaks the build = exit 2)
	for _, v := range []any{kmip.Operation(0), kmip.ObjectType(0), kmip.ResultStatus(0), kmip.ResultReason(0), kmip.CredentialType(0), kmip.KeyFormatType(0),
		kmip.BatchErrorContinuationOption(0), kmip.QueryFunction(0), kmip.CancellationResult(0), kmip.PutFunction(0), kmip.ValidityIndicator(0), kmip.CertificateRequestType(0)} {
		walk(reflect.TypeOf(v))
	}
	return out
}
