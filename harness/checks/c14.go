package checks

import (
	"context"
	"crypto"
	"crypto/ecdsa"
	"crypto/elliptic"
	"crypto/rsa"
	"crypto/x509"
	"encoding/pem"
	"fmt"
	"math/big"
	"net"
	"reflect"
	"sort"
	"strings"
	"sync/atomic"

	"github.com/ovh/kmip-go"
	"github.com/ovh/kmip-go/kmipclient"
	"github.com/ovh/kmip-go/payloads"
	"github.com/ovh/kmip-go/ttlv"
	"verifharness/msg"
	"verifharness/vlib"
)

func init() { All["C14"] = Spec{"exploration", runC14} }

// ---- deterministic keys (no crypto/rand) ----

func ecScalars(c elliptic.Curve, thorough bool) []*big.Int {
	n := c.Params().N
	one := big.NewInt(1)
	cand := []*big.Int{big.NewInt(1), big.NewInt(2), big.NewInt(0x7F), big.NewInt(0x80), big.NewInt(0xFF), big.NewInt(0x100), big.NewInt(0x7FFF), big.NewInt(0x8000),
		new(big.Int).Sub(n, one), new(big.Int).Sub(n, big.NewInt(2)), new(big.Int).Rsh(n, 1), new(big.Int).Rsh(n, 8), new(big.Int).Rsh(n, 9)}
	ks := []uint{7, 8, 15, 16, 63, 64}
	if thorough {
		for k := uint(1); k*8 < uint(n.BitLen()); k++ {
			ks = append(ks, 8*k-1, 8*k)
		}
	}
	for _, k := range ks {
		p := new(big.Int).Lsh(one, k)
		cand = append(cand, new(big.Int).Sub(p, one), p, new(big.Int).Add(p, one))
	}
	// top byte 0x80 / 0x7F / 0x00 0x80 within the curve's byte length
	bl := (n.BitLen() + 7) / 8
	for _, top := range []int64{0x80, 0x7F, 0x01} {
		x := new(big.Int).Lsh(big.NewInt(top), uint(8*(bl-1)))
		cand = append(cand, x, new(big.Int).Add(x, one))
	}
	// scalars whose public point has a coordinate with a leading zero byte (shorter than the field when written without
	// padding), with a top byte >= 0x80, and both at once: found by walking d = 3, 4, 5, ... (deterministic, no randomness)
	fl := (c.Params().BitSize + 7) / 8
	need := map[string]bool{"x-short": true, "y-short": true, "x-high": true, "y-high": true}
	if c.Params().BitSize%8 != 0 {
		delete(need, "x-high") // P-521: the top byte only holds one bit
		delete(need, "y-high")
	}
	for d := int64(3); len(need) > 0 && d < 20000; d++ {
		x, y := c.ScalarBaseMult(big.NewInt(d).Bytes())
		hit := false
		for k, v := range map[string]bool{"x-short": len(x.Bytes()) < fl, "y-short": len(y.Bytes()) < fl,
			"x-high": len(x.Bytes()) == fl && x.Bytes()[0] >= 0x80, "y-high": len(y.Bytes()) == fl && y.Bytes()[0] >= 0x80} {
			if v && need[k] {
				delete(need, k)
				hit = true
			}
		}
		if hit {
			cand = append(cand, big.NewInt(d))
		}
	}
	seen := map[string]bool{}
	var out []*big.Int
	for _, d := range cand {
		if d.Sign() <= 0 || d.Cmp(n) >= 0 || seen[d.String()] {
			continue
		}
		seen[d.String()] = true
		out = append(out, d)
	}
	return out
}

func ecKey(c elliptic.Curve, d *big.Int) *ecdsa.PrivateKey {
	x, y := c.ScalarBaseMult(d.Bytes())
	return &ecdsa.PrivateKey{PublicKey: ecdsa.PublicKey{Curve: c, X: x, Y: y}, D: new(big.Int).Set(d)}
}

func nextPrime(start *big.Int) *big.Int {
	p := new(big.Int).Set(start)
	if p.Bit(0) == 0 {
		p.Add(p, big.NewInt(1))
	}
	for !p.ProbablyPrime(20) {
		p.Add(p, big.NewInt(2))
	}
	return p
}

// rsaKey assembles an RSA key from primes found by deterministic search from structured starting points.
func rsaKey(bits int, topP, topQ byte, e int64) *rsa.PrivateKey {
	half := bits / 2
	start := func(top byte, fill byte) *big.Int {
		b := make([]byte, half/8)
		for i := range b {
			b[i] = fill
		}
		b[0] = top
		return new(big.Int).SetBytes(b)
	}
	E := big.NewInt(e)
	p := nextPrime(start(topP, 0x00))
	q := nextPrime(start(topQ, 0xA5))
	one := big.NewInt(1)
	for new(big.Int).GCD(nil, nil, E, new(big.Int).Sub(p, one)).Cmp(one) != 0 {
		p = nextPrime(new(big.Int).Add(p, big.NewInt(2)))
	}
	for {
		phi := new(big.Int).Mul(new(big.Int).Sub(p, one), new(big.Int).Sub(q, one))
		if new(big.Int).GCD(nil, nil, E, phi).Cmp(one) == 0 && p.Cmp(q) != 0 {
			d := new(big.Int).ModInverse(E, phi)
			k := &rsa.PrivateKey{PublicKey: rsa.PublicKey{N: new(big.Int).Mul(p, q), E: int(e)}, D: d, Primes: []*big.Int{p, q}}
			k.Precompute()
			return k
		}
		q = nextPrime(new(big.Int).Add(q, big.NewInt(2)))
	}
}

type c14enc struct {
	name      string
	marshal   func(any) []byte
	unmarshal func([]byte, any) error
}

var c14encs = []c14enc{{"ttlv", ttlv.MarshalTTLV, ttlv.UnmarshalTTLV}, {"xml", ttlv.MarshalXML, ttlv.UnmarshalXML}, {"json", ttlv.MarshalJSON, ttlv.UnmarshalJSON}}

// captureClient returns a client at the given version whose requests are captured instead of sent.
func captureClient(v kmip.ProtocolVersion, captured **kmip.RequestMessage) (*kmipclient.Client, error) {
	stub := func(next kmipclient.Next, ctx context.Context, req *kmip.RequestMessage) (*kmip.ResponseMessage, error) {
		*captured = req
		return nil, fmt.Errorf("captured")
	}
	dialer := func(ctx context.Context) (net.Conn, error) { a, _ := net.Pipe(); return a, nil }
	return kmipclient.DialContext(context.Background(), "capture", kmipclient.WithDialerUnsafe(dialer), kmipclient.EnforceVersion(v), kmipclient.WithMiddlewares(stub))
}

// transport: register request -> wire (encoding e) -> object -> Get response -> wire -> decoded Get response payload.
func c14Transport(e c14enc, v kmip.ProtocolVersion, req *kmip.RequestMessage) (*payloads.GetResponsePayload, error) {
	doc := e.marshal(req)
	var back kmip.RequestMessage
	if err := e.unmarshal(append([]byte{}, doc...), &back); err != nil {
		return nil, fmt.Errorf("register request does not decode: %w", err)
	}
	reg, ok := back.BatchItem[0].RequestPayload.(*payloads.RegisterRequestPayload)
	if !ok {
		return nil, fmt.Errorf("register payload decoded as %T", back.BatchItem[0].RequestPayload)
	}
	resp := &kmip.ResponseMessage{Header: kmip.ResponseHeader{ProtocolVersion: v, BatchCount: 1},
		BatchItem: []kmip.ResponseBatchItem{{Operation: kmip.OperationGet, ResponsePayload: &payloads.GetResponsePayload{ObjectType: reg.ObjectType, UniqueIdentifier: "k", Object: reg.Object}}}}
	doc2 := e.marshal(resp)
	var back2 kmip.ResponseMessage
	if err := e.unmarshal(append([]byte{}, doc2...), &back2); err != nil {
		return nil, fmt.Errorf("get response does not decode: %w", err)
	}
	gp, ok := back2.BatchItem[0].ResponsePayload.(*payloads.GetResponsePayload)
	if !ok {
		return nil, fmt.Errorf("get payload decoded as %T", back2.BatchItem[0].ResponsePayload)
	}
	return gp, nil
}

type equaler interface {
	Equal(x crypto.PrivateKey) bool
}
type pubEqualer interface{ Equal(x crypto.PublicKey) bool }

func runC14(c *vlib.Check) {
	c.Rule = "part 1: deterministically built keys — EC private scalars from the boundary alphabet restricted to [1, n-1] (leading 0x00 / 0x80 / 0x7F bytes, 2^(8k)±1, n-1, ...) plus the first scalars whose public point has an X / Y coordinate with a leading zero byte or a top byte >= 0x80, on P-224/256/384/521, " +
		"RSA keys of 1024 and 2048 bits assembled from primes found by deterministic search, symmetric keys and secrets of lengths 0..33 — x every register format the builder offers " +
		"(PKCS#1, PKCS#8, SEC1, X.509 SPKI, transparent RSA/ECDSA/EC, raw, transparent symmetric) and, for 3 scalars per curve and 2 RSA keys, every other register entry point (PrivateKey / PublicKey, Pkcs1/Pkcs8/Sec1 DER, X.509 DER, PemKey / PemPrivateKey / PemPublicKey with every PEM block type, SecretString), read back with PrivateKey/PublicKey and PemPrivateKey/PemPublicKey x client versions 1.0..1.4 x {binary, XML, JSON}: " +
		"builder -> Register request -> wire -> object -> Get response -> wire -> accessors, compared with Equal. " +
		"part 3: the same keys, two per session, through a real connection (kmipclient and a scripted key server, both over ttlv.Stream on an in-memory pipe): Register A, Register B, Get A, Get B, then the accessors on both held responses. " +
		"part 2: every object type x key format x {key value absent, wrapped, plain} x every subset of optional parts missing (2^7 subsets of the optional RSA integers, material absent, attributes absent) " +
		"that survives an encode/decode round trip x all 16 accessors: no panic. distinct = distinct (key, format, version, encoding) or (object shape, accessor) cases"
	c.Assumptions = []string{"keys are compared with the standard library's Equal methods; RSA moduli are represented by 6 deterministic keys (boundary classes), not by all moduli"}
	thorough := c.Thorough()
	usage := kmip.CryptographicUsageSign
	type keyCase struct {
		name  string
		build func(cl *kmipclient.Client) kmipclient.ExecRegister
		check func(gp *payloads.GetResponsePayload) error
	}
	var cases []keyCase
	curves := []elliptic.Curve{elliptic.P224(), elliptic.P256(), elliptic.P384(), elliptic.P521()}
	for _, cv := range curves {
		for _, d := range ecScalars(cv, thorough) {
			k := ecKey(cv, d)
			for _, f := range []struct {
				n string
				f kmipclient.KeyFormat
			}{{"SEC1", kmipclient.SEC1}, {"PKCS8", kmipclient.PKCS8}, {"Transparent", kmipclient.Transparent}, {"default", 0}} {
				f := f
				cases = append(cases, keyCase{fmt.Sprintf("ECDSA %s d=0x%x private %s", cv.Params().Name, d, f.n),
					func(cl *kmipclient.Client) kmipclient.ExecRegister {
						return cl.Register().WithKeyFormat(f.f).EcdsaPrivateKey(k, usage)
					},
					func(gp *payloads.GetResponsePayload) error {
						got, err := gp.EcdsaPrivateKey()
						if err != nil {
							return fmt.Errorf("EcdsaPrivateKey: %w", err)
						}
						if !k.Equal(got) {
							return fmt.Errorf("extracted ECDSA private key differs (D=%x, want %x)", got.D, k.D)
						}
						any, err := gp.PrivateKey()
						if err != nil {
							return fmt.Errorf("PrivateKey: %w", err)
						}
						if !k.Equal(any) {
							return fmt.Errorf("PrivateKey() differs")
						}
						return nil
					}})
			}
			for _, f := range []struct {
				n string
				f kmipclient.KeyFormat
			}{{"X509", kmipclient.X509}, {"Transparent", kmipclient.Transparent}} {
				f := f
				cases = append(cases, keyCase{fmt.Sprintf("ECDSA %s d=0x%x public %s", cv.Params().Name, d, f.n),
					func(cl *kmipclient.Client) kmipclient.ExecRegister {
						return cl.Register().WithKeyFormat(f.f).EcdsaPublicKey(&k.PublicKey, kmip.CryptographicUsageVerify)
					},
					func(gp *payloads.GetResponsePayload) error {
						got, err := gp.EcdsaPublicKey()
						if err != nil {
							return fmt.Errorf("EcdsaPublicKey: %w", err)
						}
						if !k.PublicKey.Equal(got) {
							return fmt.Errorf("extracted ECDSA public key differs")
						}
						any, err := gp.PublicKey()
						if err != nil {
							return fmt.Errorf("PublicKey: %w", err)
						}
						if !k.PublicKey.Equal(any) {
							return fmt.Errorf("PublicKey() differs")
						}
						return nil
					}})
			}
		}
	}
	rsaSpecs := []struct {
		bits       int
		topP, topQ byte
		e          int64
	}{{1024, 0xC0, 0xFF, 65537}, {1024, 0xFF, 0xB7, 3}, {1024, 0xE0, 0xD1, 17}, {2048, 0xC0, 0xC0, 65537}, {2048, 0xFF, 0xFF, 65537}, {2048, 0xB6, 0xF1, 257}}
	if !thorough {
		rsaSpecs = rsaSpecs[:4]
	}
	// every RSA key is handed over twice: as crypto/rsa generates or parses it (CRT values precomputed) and as a program
	// assembles it from N, E, D and the primes alone (Precomputed left at its zero value: the optional CRT parts are absent)
	type rsaSpec = struct {
		bits       int
		topP, topQ byte
		e          int64
	}
	type rsaVariant struct {
		rs   rsaSpec
		bare bool
	}
	var rsaVariants []rsaVariant
	for i, rs := range rsaSpecs {
		rsaVariants = append(rsaVariants, rsaVariant{rs, false})
		if i < 2 || thorough {
			rsaVariants = append(rsaVariants, rsaVariant{rs, true})
		}
	}
	for _, rv := range rsaVariants {
		rs := rv.rs
		k := rsaKey(rs.bits, rs.topP, rs.topQ, rs.e)
		label := fmt.Sprintf("RSA-%d p0=%02X q0=%02X e=%d", rs.bits, rs.topP, rs.topQ, rs.e)
		// handed returns the key as it is handed to the register builder: for the bare variant a fresh key without CRT values
		// on every call (crypto/x509 and crypto/rsa precompute them in place when they first use a key, and cases run in parallel)
		handed := func() *rsa.PrivateKey { return k }
		if rv.bare {
			full := k
			handed = func() *rsa.PrivateKey {
				return &rsa.PrivateKey{PublicKey: rsa.PublicKey{N: full.N, E: full.E}, D: full.D, Primes: []*big.Int{full.Primes[0], full.Primes[1]}}
			}
			label += " (CRT values not precomputed)"
		}
		for _, f := range []struct {
			n string
			f kmipclient.KeyFormat
		}{{"PKCS1", kmipclient.PKCS1}, {"PKCS8", kmipclient.PKCS8}, {"Transparent", kmipclient.Transparent}, {"default", 0}} {
			f := f
			cases = append(cases, keyCase{label + " private " + f.n,
				func(cl *kmipclient.Client) kmipclient.ExecRegister {
					return cl.Register().WithKeyFormat(f.f).RsaPrivateKey(handed(), usage)
				},
				func(gp *payloads.GetResponsePayload) error {
					got, err := gp.RsaPrivateKey()
					if err != nil {
						return fmt.Errorf("RsaPrivateKey: %w", err)
					}
					if !k.Equal(got) {
						return fmt.Errorf("extracted RSA private key differs")
					}
					any, err := gp.PrivateKey()
					if err != nil {
						return fmt.Errorf("PrivateKey: %w", err)
					}
					if !k.Equal(any) {
						return fmt.Errorf("PrivateKey() differs")
					}
					return nil
				}})
		}
		for _, f := range []struct {
			n string
			f kmipclient.KeyFormat
		}{{"PKCS1", kmipclient.PKCS1}, {"X509", kmipclient.X509}, {"Transparent", kmipclient.Transparent}} {
			f := f
			cases = append(cases, keyCase{label + " public " + f.n,
				func(cl *kmipclient.Client) kmipclient.ExecRegister {
					return cl.Register().WithKeyFormat(f.f).RsaPublicKey(&k.PublicKey, kmip.CryptographicUsageVerify)
				},
				func(gp *payloads.GetResponsePayload) error {
					got, err := gp.RsaPublicKey()
					if err != nil {
						return fmt.Errorf("RsaPublicKey: %w", err)
					}
					if !k.PublicKey.Equal(got) {
						return fmt.Errorf("extracted RSA public key differs")
					}
					any, err := gp.PublicKey()
					if err != nil {
						return fmt.Errorf("PublicKey: %w", err)
					}
					if !k.PublicKey.Equal(any) {
						return fmt.Errorf("PublicKey() differs")
					}
					return nil
				}})
		}
	}
	// the other register entry points (generic, DER and PEM inputs), which parse their input and delegate
	type anyPriv interface {
		Public() crypto.PublicKey
		Equal(x crypto.PrivateKey) bool
	}
	checkPriv := func(k anyPriv) func(gp *payloads.GetResponsePayload) error {
		return func(gp *payloads.GetResponsePayload) error {
			got, err := gp.PrivateKey()
			if err != nil {
				return fmt.Errorf("PrivateKey: %w", err)
			}
			if !k.Equal(got) {
				return fmt.Errorf("PrivateKey() differs")
			}
			txt, err := gp.PemPrivateKey()
			if err != nil {
				return fmt.Errorf("PemPrivateKey: %w", err)
			}
			blk, _ := pem.Decode([]byte(txt))
			if blk == nil {
				return fmt.Errorf("PemPrivateKey: not PEM: %q", short(txt, 60))
			}
			var back crypto.PrivateKey
			switch blk.Type {
			case "RSA PRIVATE KEY":
				back, err = x509.ParsePKCS1PrivateKey(blk.Bytes)
			case "EC PRIVATE KEY":
				back, err = x509.ParseECPrivateKey(blk.Bytes)
			case "PRIVATE KEY":
				back, err = x509.ParsePKCS8PrivateKey(blk.Bytes)
			default:
				return fmt.Errorf("PemPrivateKey: unexpected block type %q", blk.Type)
			}
			if err != nil {
				return fmt.Errorf("PemPrivateKey output does not parse: %w", err)
			}
			if !k.Equal(back) {
				return fmt.Errorf("PemPrivateKey() differs")
			}
			return nil
		}
	}
	type anyPub interface{ Equal(x crypto.PublicKey) bool }
	checkPub := func(k anyPub) func(gp *payloads.GetResponsePayload) error {
		return func(gp *payloads.GetResponsePayload) error {
			got, err := gp.PublicKey()
			if err != nil {
				return fmt.Errorf("PublicKey: %w", err)
			}
			if !k.Equal(got) {
				return fmt.Errorf("PublicKey() differs")
			}
			txt, err := gp.PemPublicKey()
			if err != nil {
				return fmt.Errorf("PemPublicKey: %w", err)
			}
			blk, _ := pem.Decode([]byte(txt))
			if blk == nil {
				return fmt.Errorf("PemPublicKey: not PEM: %q", short(txt, 60))
			}
			var back crypto.PublicKey
			switch blk.Type {
			case "RSA PUBLIC KEY":
				back, err = x509.ParsePKCS1PublicKey(blk.Bytes)
			case "PUBLIC KEY":
				back, err = x509.ParsePKIXPublicKey(blk.Bytes)
			default:
				return fmt.Errorf("PemPublicKey: unexpected block type %q", blk.Type)
			}
			if err != nil {
				return fmt.Errorf("PemPublicKey output does not parse: %w", err)
			}
			if !k.Equal(back) {
				return fmt.Errorf("PemPublicKey() differs")
			}
			return nil
		}
	}
	pemOf := func(typ string, der []byte) []byte { return pem.EncodeToMemory(&pem.Block{Type: typ, Bytes: der}) }
	addEntryPoints := func(label string, priv anyPriv, pub anyPub, ders map[string][]byte) {
		type ep struct {
			n string
			b func(ex kmipclient.ExecRegisterWantType) kmipclient.ExecRegister
			p bool // registers the private key
		}
		eps := []ep{
			{"PrivateKey(key)", func(ex kmipclient.ExecRegisterWantType) kmipclient.ExecRegister { return ex.PrivateKey(priv, usage) }, true},
			{"PublicKey(key)", func(ex kmipclient.ExecRegisterWantType) kmipclient.ExecRegister {
				return ex.PublicKey(priv.Public(), kmip.CryptographicUsageVerify)
			}, false},
		}
		for typ, der := range ders {
			typ, der := typ, der
			private := strings.Contains(typ, "PRIVATE")
			switch typ {
			case "RSA PRIVATE KEY":
				eps = append(eps, ep{"Pkcs1PrivateKey(der)", func(ex kmipclient.ExecRegisterWantType) kmipclient.ExecRegister {
					return ex.Pkcs1PrivateKey(der, usage)
				}, true})
			case "EC PRIVATE KEY":
				eps = append(eps, ep{"Sec1PrivateKey(der)", func(ex kmipclient.ExecRegisterWantType) kmipclient.ExecRegister { return ex.Sec1PrivateKey(der, usage) }, true})
			case "PRIVATE KEY":
				eps = append(eps, ep{"Pkcs8PrivateKey(der)", func(ex kmipclient.ExecRegisterWantType) kmipclient.ExecRegister {
					return ex.Pkcs8PrivateKey(der, usage)
				}, true})
			case "RSA PUBLIC KEY":
				eps = append(eps, ep{"Pkcs1PublicKey(der)", func(ex kmipclient.ExecRegisterWantType) kmipclient.ExecRegister {
					return ex.Pkcs1PublicKey(der, kmip.CryptographicUsageVerify)
				}, false})
			case "PUBLIC KEY":
				eps = append(eps, ep{"X509PublicKey(der)", func(ex kmipclient.ExecRegisterWantType) kmipclient.ExecRegister {
					return ex.X509PublicKey(der, kmip.CryptographicUsageVerify)
				}, false})
			}
			eps = append(eps, ep{"PemKey(" + typ + ")", func(ex kmipclient.ExecRegisterWantType) kmipclient.ExecRegister {
				return ex.PemKey(pemOf(typ, der), usage)
			}, private})
			if private {
				eps = append(eps, ep{"PemPrivateKey(" + typ + ")", func(ex kmipclient.ExecRegisterWantType) kmipclient.ExecRegister {
					return ex.PemPrivateKey(pemOf(typ, der), usage)
				}, true})
			}
			// PemPublicKey also accepts a private key and registers its public part
			eps = append(eps, ep{"PemPublicKey(" + typ + ")", func(ex kmipclient.ExecRegisterWantType) kmipclient.ExecRegister {
				return ex.PemPublicKey(pemOf(typ, der), kmip.CryptographicUsageVerify)
			}, false})
		}
		sort.Slice(eps, func(i, j int) bool { return eps[i].n < eps[j].n })
		for _, e := range eps {
			e := e
			ck := checkPub(pub)
			if e.p {
				ck = checkPriv(priv)
			}
			cases = append(cases, keyCase{label + " via " + e.n, func(cl *kmipclient.Client) kmipclient.ExecRegister { return e.b(cl.Register()) }, ck})
		}
	}
	for _, cv := range curves {
		ds := ecScalars(cv, thorough)
		for _, d := range []*big.Int{ds[0], ds[len(ds)/2], ds[len(ds)-1]} {
			k := ecKey(cv, d)
			sec1, err1 := x509.MarshalECPrivateKey(k)
			p8, err2 := x509.MarshalPKCS8PrivateKey(k)
			pkix, err3 := x509.MarshalPKIXPublicKey(&k.PublicKey)
			if err1 != nil || err2 != nil || err3 != nil {
				panic(fmt.Sprint("c14: cannot marshal EC key: ", err1, err2, err3))
			}
			addEntryPoints(fmt.Sprintf("ECDSA %s d=0x%x", cv.Params().Name, d), k, &k.PublicKey, map[string][]byte{"EC PRIVATE KEY": sec1, "PRIVATE KEY": p8, "PUBLIC KEY": pkix})
		}
	}
	for _, rs := range rsaSpecs[:2] {
		k := rsaKey(rs.bits, rs.topP, rs.topQ, rs.e)
		p8, err2 := x509.MarshalPKCS8PrivateKey(k)
		pkix, err3 := x509.MarshalPKIXPublicKey(&k.PublicKey)
		if err2 != nil || err3 != nil {
			panic(fmt.Sprint("c14: cannot marshal RSA key: ", err2, err3))
		}
		addEntryPoints(fmt.Sprintf("RSA-%d p0=%02X q0=%02X e=%d", rs.bits, rs.topP, rs.topQ, rs.e), k, &k.PublicKey, map[string][]byte{
			"RSA PRIVATE KEY": x509.MarshalPKCS1PrivateKey(k), "PRIVATE KEY": p8, "RSA PUBLIC KEY": x509.MarshalPKCS1PublicKey(&k.PublicKey), "PUBLIC KEY": pkix})
	}
	for _, str := range []string{"", "p", "pässword ✓", strings.Repeat("x", 33)} {
		str := str
		cases = append(cases, keyCase{fmt.Sprintf("secret string %q", str),
			func(cl *kmipclient.Client) kmipclient.ExecRegister {
				return cl.Register().SecretString(kmip.SecretDataTypePassword, str)
			},
			func(gp *payloads.GetResponsePayload) error {
				got, err := gp.SecretString()
				if err != nil {
					return fmt.Errorf("SecretString: %w", err)
				}
				if got != str {
					return fmt.Errorf("extracted secret string differs: %q", got)
				}
				return nil
			}})
	}
	for l := 0; l <= 33; l++ {
		key := make([]byte, l)
		for i := range key {
			key[i] = byte(0x80 + i)
		}
		for _, f := range []struct {
			n string
			f kmipclient.KeyFormat
		}{{"RAW", kmipclient.RAW}, {"Transparent", kmipclient.Transparent}} {
			f := f
			cases = append(cases, keyCase{fmt.Sprintf("symmetric key of %d bytes %s", l, f.n),
				func(cl *kmipclient.Client) kmipclient.ExecRegister {
					return cl.Register().WithKeyFormat(f.f).SymmetricKey(kmip.CryptographicAlgorithmAES, kmip.CryptographicUsageEncrypt, key)
				},
				func(gp *payloads.GetResponsePayload) error {
					got, err := gp.SymmetricKey()
					if err != nil {
						return fmt.Errorf("SymmetricKey: %w", err)
					}
					if string(got) != string(key) {
						return fmt.Errorf("extracted symmetric key differs: %x", got)
					}
					return nil
				}})
		}
		cases = append(cases, keyCase{fmt.Sprintf("secret of %d bytes", l),
			func(cl *kmipclient.Client) kmipclient.ExecRegister {
				return cl.Register().Secret(kmip.SecretDataTypePassword, key)
			},
			func(gp *payloads.GetResponsePayload) error {
				got, err := gp.Secret()
				if err != nil {
					return fmt.Errorf("Secret: %w", err)
				}
				if string(got) != string(key) {
					return fmt.Errorf("extracted secret differs: %x", got)
				}
				return nil
			}})
	}
	var n1 int64
	vlib.Parallel(len(cases), 0, func(i int) {
		kc := cases[i]
		for _, v := range msg.Versions {
			var captured *kmip.RequestMessage
			cl, err := captureClient(v, &captured)
			if err != nil {
				c.Violation("machinery:dial", err.Error(), nil)
				return
			}
			label := fmt.Sprintf("%s @%d.%d", kc.name, v.ProtocolVersionMajor, v.ProtocolVersionMinor)
			rep := map[string]any{"kind": "key", "case": label}
			var berr error
			if pv, site := vlib.Catch(func() { _, berr = kc.build(cl).ExecContext(context.Background()) }); pv != nil {
				c.Violation("register-panic:"+site, fmt.Sprintf("%s: building the register request panicked: %v", label, pv), rep)
				cl.Close()
				continue
			}
			cl.Close()
			if captured == nil {
				// empty keys may legitimately be refused by the builder
				c.Eval([]byte(label+"refused"), true)
				_ = berr
				continue
			}
			for _, e := range c14encs {
				c.Eval([]byte(label+e.name), true)
				atomic.AddInt64(&n1, 1)
				var gp *payloads.GetResponsePayload
				var terr error
				if pv, site := vlib.Catch(func() { gp, terr = c14Transport(e, v, captured) }); pv != nil {
					c.Violation("transport-panic:"+site, fmt.Sprintf("%s via %s: %v", label, e.name, pv), rep)
					continue
				}
				if terr != nil {
					c.Violation("transport:"+e.name+":"+ErrClass(terr), fmt.Sprintf("%s via %s: %v", label, e.name, terr), rep)
					continue
				}
				var cerr error
				if pv, site := vlib.Catch(func() { cerr = kc.check(gp) }); pv != nil {
					c.Violation("accessor-panic:"+site, fmt.Sprintf("%s via %s: accessor panicked: %v", label, e.name, pv), rep)
					continue
				}
				if cerr != nil {
					c.Violation("key-differs:"+keyClass(kc.name)+":"+ErrClass(cerr), fmt.Sprintf("%s via %s: %v", label, e.name, cerr), rep)
				}
			}
			if i%97 == 0 && v == kmip.V1_2 {
				c.Sample(label)
			}
		}
	})
	c.Extra["part1_key_transports"] = n1
	// part 3: the same keys through a real connection (kmipclient over an in-memory pipe, requests and responses framed by
	// ttlv.Stream on both sides), two keys per session: Register A, Register B, Get A, Get B, and only then the accessors on
	// both held responses - neither the object kept by the server nor the response kept by the client may be disturbed by
	// the messages that followed it on the connection.
	var n3 int64
	vlib.Parallel(len(cases), 0, func(i int) {
		pair := []keyCase{cases[i], cases[(i+1)%len(cases)]}
		for _, v := range msg.Versions {
			label := fmt.Sprintf("session [%s | %s] @%d.%d", pair[0].name, pair[1].name, v.ProtocolVersionMajor, v.ProtocolVersionMinor)
			rep := map[string]any{"kind": "key-session", "case": label}
			a, b := net.Pipe()
			srvDone := make(chan struct{})
			go func() { // scripted key server: keeps the decoded objects, answers Get with them
				defer close(srvDone)
				defer b.Close()
				st := ttlv.NewStream(b, 0)
				store := map[string]*payloads.RegisterRequestPayload{}
				for {
					var req kmip.RequestMessage
					if err := st.Recv(&req); err != nil || len(req.BatchItem) != 1 {
						return
					}
					bi := kmip.ResponseBatchItem{Operation: req.BatchItem[0].Operation}
					switch p := req.BatchItem[0].RequestPayload.(type) {
					case *payloads.RegisterRequestPayload:
						id := fmt.Sprintf("k%d", len(store))
						store[id] = p
						bi.ResponsePayload = &payloads.RegisterResponsePayload{UniqueIdentifier: id}
					case *payloads.GetRequestPayload:
						if r := store[p.UniqueIdentifier]; r != nil {
							bi.ResponsePayload = &payloads.GetResponsePayload{ObjectType: r.ObjectType, UniqueIdentifier: p.UniqueIdentifier, Object: r.Object}
						} else {
							bi.ResultStatus, bi.ResultReason = kmip.ResultStatusOperationFailed, kmip.ResultReasonItemNotFound
						}
					default:
						bi.ResultStatus, bi.ResultReason = kmip.ResultStatusOperationFailed, kmip.ResultReasonOperationNotSupported
					}
					resp := kmip.ResponseMessage{Header: kmip.ResponseHeader{ProtocolVersion: req.Header.ProtocolVersion, BatchCount: 1}, BatchItem: []kmip.ResponseBatchItem{bi}}
					if err := st.Send(&resp); err != nil {
						return
					}
				}
			}()
			func() {
				dialer := func(ctx context.Context) (net.Conn, error) { return a, nil }
				cl, err := kmipclient.DialContext(context.Background(), "pipe", kmipclient.WithDialerUnsafe(dialer), kmipclient.EnforceVersion(v))
				if err != nil {
					c.Violation("machinery:dial", err.Error(), nil)
					_ = a.Close()
					return
				}
				defer cl.Close()
				var ids []string
				for _, kc := range pair {
					var r *payloads.RegisterResponsePayload
					var rerr error
					if pv, site := vlib.Catch(func() { r, rerr = kc.build(cl).ExecContext(context.Background()) }); pv != nil {
						c.Violation("register-panic:"+site, fmt.Sprintf("%s: %v", label, pv), rep)
						return
					}
					if rerr != nil || r == nil {
						return // a key the builder refuses (empty key): covered by part 1
					}
					ids = append(ids, r.UniqueIdentifier)
				}
				var gps []*payloads.GetResponsePayload
				for _, id := range ids {
					gp, gerr := cl.Get(id).ExecContext(context.Background())
					if gerr != nil {
						c.Violation("session:get-failed:"+ErrClass(gerr), fmt.Sprintf("%s: Get(%s): %v", label, id, gerr), rep)
						return
					}
					gps = append(gps, gp)
				}
				c.Eval([]byte(label), true)
				atomic.AddInt64(&n3, 1)
				for j, kc := range pair {
					var cerr error
					if pv, site := vlib.Catch(func() { cerr = kc.check(gps[j]) }); pv != nil {
						c.Violation("accessor-panic:"+site, fmt.Sprintf("%s: accessor panicked on key %d: %v", label, j, pv), rep)
						continue
					}
					if cerr != nil {
						c.Violation("session:key-differs:"+keyClass(kc.name), fmt.Sprintf("%s: key %d extracted after the later exchanges of the session: %v", label, j, cerr), rep)
					}
				}
			}()
			_ = a.Close()
			<-srvDone
		}
	})
	c.Extra["part3_key_sessions"] = n3
	c14Totality(c)
	c.Exhaustive = true
}

func keyClass(name string) string {
	f := ""
	for _, w := range []string{"ECDSA", "RSA", "symmetric", "secret"} {
		if len(name) >= len(w) && name[:len(w)] == w {
			f = w
		}
	}
	for _, w := range []string{"private", "public"} {
		if containsWord(name, w) {
			f += "-" + w
		}
	}
	for _, w := range []string{"SEC1", "PKCS8", "PKCS1", "X509", "Transparent", "RAW", "default"} {
		if containsWord(name, w) {
			f += "-" + w
		}
	}
	return f
}

func containsWord(s, w string) bool {
	for i := 0; i+len(w) <= len(s); i++ {
		if s[i:i+len(w)] == w {
			return true
		}
	}
	return false
}

// ---- part 2: accessor totality ----

func c14Totality(c *vlib.Check) {
	bp := func(b []byte) *[]byte { return &b }
	formats := []kmip.KeyFormatType{kmip.KeyFormatTypeRaw, kmip.KeyFormatTypeOpaque, kmip.KeyFormatTypePKCS_1, kmip.KeyFormatTypePKCS_8, kmip.KeyFormatTypeX_509, kmip.KeyFormatTypeECPrivateKey,
		kmip.KeyFormatTypeTransparentSymmetricKey, kmip.KeyFormatTypeTransparentRSAPrivateKey, kmip.KeyFormatTypeTransparentRSAPublicKey, kmip.KeyFormatTypeTransparentECDSAPrivateKey,
		kmip.KeyFormatTypeTransparentECDSAPublicKey, kmip.KeyFormatTypeTransparentECPrivateKey, kmip.KeyFormatTypeTransparentECPublicKey, kmip.KeyFormatType(0x16), kmip.KeyFormatType(0x99)}
	var blocks []kmip.KeyBlock
	for _, f := range formats {
		// key value absent, wrapped, plain with every material variant (matching or not) and garbage bytes
		blocks = append(blocks, kmip.KeyBlock{KeyFormatType: f})
		blocks = append(blocks, kmip.KeyBlock{KeyFormatType: f, KeyValue: &kmip.KeyValue{Wrapped: bp([]byte{1, 2, 3})}})
		blocks = append(blocks, kmip.KeyBlock{KeyFormatType: f, KeyValue: &kmip.KeyValue{}})
		blocks = append(blocks, kmip.KeyBlock{KeyFormatType: f, KeyValue: &kmip.KeyValue{Plain: &kmip.PlainKeyValue{}}})
		mats := []kmip.KeyMaterial{
			{Bytes: bp(nil)}, {Bytes: bp([]byte{0x30, 0x00})}, {Bytes: bp([]byte{1, 2, 3, 4, 5})},
			{TransparentSymmetricKey: &kmip.TransparentSymmetricKey{}}, {TransparentSymmetricKey: &kmip.TransparentSymmetricKey{Key: []byte{1}}},
			{TransparentRSAPublicKey: &kmip.TransparentRSAPublicKey{}}, {TransparentRSAPublicKey: &kmip.TransparentRSAPublicKey{Modulus: *big.NewInt(77), PublicExponent: *new(big.Int).Lsh(big.NewInt(1), 70)}},
			{TransparentECDSAPrivateKey: &kmip.TransparentECDSAPrivateKey{}}, {TransparentECDSAPrivateKey: &kmip.TransparentECDSAPrivateKey{RecommendedCurve: kmip.RecommendedCurveP_256}},
			{TransparentECDSAPrivateKey: &kmip.TransparentECDSAPrivateKey{RecommendedCurve: kmip.RecommendedCurveP_256, D: *big.NewInt(-5)}},
			{TransparentECDSAPublicKey: &kmip.TransparentECDSAPublicKey{}}, {TransparentECDSAPublicKey: &kmip.TransparentECDSAPublicKey{RecommendedCurve: kmip.RecommendedCurveP_256, QString: []byte{4, 1}}},
			{TransparentECPrivateKey: &kmip.TransparentECPrivateKey{}}, {TransparentECPrivateKey: &kmip.TransparentECPrivateKey{RecommendedCurve: kmip.RecommendedCurveP_521, D: *big.NewInt(0)}},
			{TransparentECPublicKey: &kmip.TransparentECPublicKey{}}, {TransparentECPublicKey: &kmip.TransparentECPublicKey{RecommendedCurve: 0x7777, QString: []byte{2, 1}}},
		}
		// every subset of the seven optional RSA integers
		for m := 0; m < 128; m++ {
			t := &kmip.TransparentRSAPrivateKey{Modulus: *big.NewInt(3233)}
			vals := []**big.Int{&t.PrivateExponent, &t.PublicExponent, &t.P, &t.Q, &t.PrimeExponentP, &t.PrimeExponentQ, &t.CRTCoefficient}
			nums := []int64{2753, 17, 61, 53, 53, 49, 38}
			for b := 0; b < 7; b++ {
				if m&(1<<uint(b)) != 0 {
					*vals[b] = big.NewInt(nums[b])
				}
			}
			mats = append(mats, kmip.KeyMaterial{TransparentRSAPrivateKey: t})
		}
		for _, mt := range mats {
			blocks = append(blocks, kmip.KeyBlock{KeyFormatType: f, KeyValue: &kmip.KeyValue{Plain: &kmip.PlainKeyValue{KeyMaterial: mt}}})
		}
		blocks = append(blocks, kmip.KeyBlock{KeyFormatType: f, KeyCompressionType: kmip.KeyCompressionTypeECPublicKeyTypeX9_62CompressedPrime,
			KeyValue: &kmip.KeyValue{Plain: &kmip.PlainKeyValue{KeyMaterial: kmip.KeyMaterial{TransparentECPublicKey: &kmip.TransparentECPublicKey{RecommendedCurve: kmip.RecommendedCurveP_256, QString: []byte{2, 1, 2, 3}}}}}})
	}
	mkObjects := func(kb kmip.KeyBlock) []kmip.Object {
		return []kmip.Object{&kmip.SymmetricKey{KeyBlock: kb}, &kmip.PublicKey{KeyBlock: kb}, &kmip.PrivateKey{KeyBlock: kb}, &kmip.SecretData{SecretDataType: kmip.SecretDataTypePassword, KeyBlock: kb},
			&kmip.SplitKey{SplitKeyParts: 1, KeyBlock: kb}, &kmip.PGPKey{PGPKeyVersion: 4, KeyBlock: kb}}
	}
	var objs []kmip.Object
	for _, kb := range blocks {
		objs = append(objs, mkObjects(kb)...)
	}
	objs = append(objs, &kmip.Certificate{}, &kmip.Certificate{CertificateType: kmip.CertificateTypeX_509}, &kmip.Certificate{CertificateType: kmip.CertificateTypeX_509, CertificateValue: []byte{0x30, 0x00}},
		&kmip.Certificate{CertificateType: kmip.CertificateTypePGP, CertificateValue: []byte{1}}, &kmip.OpaqueObject{}, &kmip.Template{}, &kmip.Template{Attribute: msg.StdAttributes()[:2]})
	type acc struct {
		name string
		call func(gp *payloads.GetResponsePayload)
	}
	accs := []acc{
		{"SecretString", func(gp *payloads.GetResponsePayload) { _, _ = gp.SecretString() }}, {"Secret", func(gp *payloads.GetResponsePayload) { _, _ = gp.Secret() }},
		{"SymmetricKey", func(gp *payloads.GetResponsePayload) { _, _ = gp.SymmetricKey() }}, {"X509Certificate", func(gp *payloads.GetResponsePayload) { _, _ = gp.X509Certificate() }},
		{"PemCertificate", func(gp *payloads.GetResponsePayload) { _, _ = gp.PemCertificate() }}, {"RsaPrivateKey", func(gp *payloads.GetResponsePayload) { _, _ = gp.RsaPrivateKey() }},
		{"EcdsaPrivateKey", func(gp *payloads.GetResponsePayload) { _, _ = gp.EcdsaPrivateKey() }}, {"PrivateKey", func(gp *payloads.GetResponsePayload) { _, _ = gp.PrivateKey() }},
		{"PemPrivateKey", func(gp *payloads.GetResponsePayload) { _, _ = gp.PemPrivateKey() }}, {"RsaPublicKey", func(gp *payloads.GetResponsePayload) { _, _ = gp.RsaPublicKey() }},
		{"EcdsaPublicKey", func(gp *payloads.GetResponsePayload) { _, _ = gp.EcdsaPublicKey() }}, {"PublicKey", func(gp *payloads.GetResponsePayload) { _, _ = gp.PublicKey() }},
		{"PemPublicKey", func(gp *payloads.GetResponsePayload) { _, _ = gp.PemPublicKey() }},
		{"KeyBlock.GetMaterial", func(gp *payloads.GetResponsePayload) {
			if kb := keyBlockOf(gp.Object); kb != nil {
				_, _ = kb.GetMaterial()
			}
		}},
		{"KeyBlock.GetBytes", func(gp *payloads.GetResponsePayload) {
			if kb := keyBlockOf(gp.Object); kb != nil {
				_, _ = kb.GetBytes()
			}
		}},
		{"KeyBlock.GetAttributes", func(gp *payloads.GetResponsePayload) {
			if kb := keyBlockOf(gp.Object); kb != nil {
				_ = kb.GetAttributes()
			}
		}},
	}
	var survived, tried int64
	vlib.Parallel(len(objs), 0, func(i int) {
		o := objs[i]
		atomic.AddInt64(&tried, 1)
		resp := &kmip.ResponseMessage{Header: kmip.ResponseHeader{ProtocolVersion: kmip.V1_4, BatchCount: 1},
			BatchItem: []kmip.ResponseBatchItem{{Operation: kmip.OperationGet, ResponsePayload: &payloads.GetResponsePayload{ObjectType: o.ObjectType(), UniqueIdentifier: "k", Object: o}}}}
		var doc []byte
		if pv, _ := vlib.Catch(func() { doc = ttlv.MarshalTTLV(resp) }); pv != nil {
			return // not encodable: not a decodable object
		}
		var back kmip.ResponseMessage
		var err error
		if pv, _ := vlib.Catch(func() { err = ttlv.UnmarshalTTLV(doc, &back) }); pv != nil || err != nil {
			return
		}
		gp, ok := back.BatchItem[0].ResponsePayload.(*payloads.GetResponsePayload)
		if !ok || gp.Object == nil {
			return
		}
		atomic.AddInt64(&survived, 1)
		shape := objShape(gp.Object)
		for _, a := range accs {
			c.Eval([]byte(shape+a.name+fmt.Sprint(i)), true)
			if pv, site := vlib.Catch(func() { a.call(gp) }); pv != nil {
				c.Violation("accessor-panic:"+site, fmt.Sprintf("%s on a decoded %s panicked: %v", a.name, shape, pv), map[string]any{"kind": "object", "accessor": a.name, "shape": shape, "hex": fmt.Sprintf("%x", doc)})
			}
		}
		if i%911 == 0 {
			c.Sample(map[string]any{"object_shape": shape})
		}
	})
	c.Extra["part2_objects_built"] = tried
	c.Extra["part2_objects_surviving_roundtrip"] = survived
}

func keyBlockOf(o kmip.Object) *kmip.KeyBlock {
	v := reflect.ValueOf(o)
	if v.Kind() == reflect.Pointer && !v.IsNil() {
		if f := v.Elem().FieldByName("KeyBlock"); f.IsValid() {
			return f.Addr().Interface().(*kmip.KeyBlock)
		}
	}
	return nil
}

func objShape(o kmip.Object) string {
	kb := keyBlockOf(o)
	if kb == nil {
		return fmt.Sprintf("%T", o)
	}
	kv := "no key value"
	if kb.KeyValue != nil {
		switch {
		case kb.KeyValue.Wrapped != nil:
			kv = "wrapped key value"
		case kb.KeyValue.Plain != nil:
			kv = "plain key value"
			m := kb.KeyValue.Plain.KeyMaterial
			rv := reflect.ValueOf(m)
			none := true
			for i := 0; i < rv.NumField(); i++ {
				if !rv.Field(i).IsNil() {
					kv += " with " + rv.Type().Field(i).Name
					none = false
				}
			}
			if none {
				kv += " without material"
			}
		default:
			kv = "empty key value"
		}
	}
	return fmt.Sprintf("%T format %d, %s", o, uint32(kb.KeyFormatType), kv)
}
