package checks

import (
	"regexp"
	"strings"

	"verifharness/vlib"
)

type Spec struct {
	Level string
	Run   func(c *vlib.Check)
}

var All = map[string]Spec{}

var reNum = regexp.MustCompile(`0x[0-9A-Fa-f]+|[0-9A-Fa-f]{6,}|[0-9]+`)

// ErrClass strips numbers from an error text so that it can serve as part of a signature.
func ErrClass(err error) string {
	if err == nil {
		return "<nil>"
	}
	s := reNum.ReplaceAllString(err.Error(), "N")
	s = strings.ReplaceAll(s, "in N@N: ", "") // nesting depth of the reference parser's error is not part of the class
	if len(s) > 120 {
		s = s[:120]
	}
	return s
}
