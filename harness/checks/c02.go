package checks

import (
	"bytes"
	"encoding/hex"
	"fmt"
	"net/http"
	"net/http/httptest"
	"os"
	"reflect"
	"strings"
	"sync"
	"sync/atomic"
	"time"

	"context"

	"github.com/ovh/kmip-go"
	"github.com/ovh/kmip-go/kmipserver"
	"github.com/ovh/kmip-go/payloads"
	"github.com/ovh/kmip-go/ttlv"
	"verifharness/conv"
	"verifharness/enum"
	"verifharness/msg"
	"verifharness/refttlv"
	"verifharness/vlib"
)

func init() { All["C02"] = Spec{"exploration", runC02} }

type decTarget struct {
	name  string
	tag   int // 0 = the type's default tag
	fresh func() any
}

var decTargets = []decTarget{
	{"Value", 0, func() any { return &ttlv.Value{} }},
	{"RequestMessage", 0, func() any { return &kmip.RequestMessage{} }},
	{"ResponseMessage", 0, func() any { return &kmip.ResponseMessage{} }},
	{"GetResponsePayload", kmip.TagResponsePayload, func() any { return &payloads.GetResponsePayload{} }},
	{"RegisterRequestPayload", kmip.TagRequestPayload, func() any { return &payloads.RegisterRequestPayload{} }},
	{"ImportRequestPayload", kmip.TagRequestPayload, func() any { return &payloads.ImportRequestPayload{} }},
	{"ExportResponsePayload", kmip.TagResponsePayload, func() any { return &payloads.ExportResponsePayload{} }},
	{"Attribute", 0, func() any { return &kmip.Attribute{} }},
	{"KeyBlock", 0, func() any { return &kmip.KeyBlock{} }},
	{"Credential", 0, func() any { return &kmip.Credential{} }},
}

type decOutcome struct {
	val   any
	err   string
	panic string
	site  string
}

func (o decOutcome) same(p decOutcome) bool {
	if o.panic != p.panic || o.err != p.err {
		return false
	}
	return reflect.DeepEqual(o.val, p.val)
}

type codec struct {
	name   string
	decode func(data []byte, t decTarget) decOutcome
}

func decodeWith(newDec func([]byte) (ttlv.Decoder, error)) func(data []byte, t decTarget) decOutcome {
	return func(data []byte, t decTarget) (o decOutcome) {
		v := t.fresh()
		defer func() {
			if r := recover(); r != nil {
				o = decOutcome{panic: classify(fmt.Sprint(r)), site: vlib.PanicSite()}
			}
		}()
		dec, err := newDec(data)
		if err != nil {
			return decOutcome{err: err.Error()}
		}
		if t.tag != 0 {
			err = dec.TagAny(t.tag, v)
		} else {
			err = dec.Any(v)
		}
		if err != nil {
			return decOutcome{err: err.Error()}
		}
		return decOutcome{val: v}
	}
}

func classify(s string) string {
	s = reNum.ReplaceAllString(s, "N")
	if len(s) > 70 {
		s = s[:70]
	}
	return s
}

var codecs = map[string]codec{
	"ttlv": {"ttlv", decodeWith(ttlv.NewTTLVDecoder)},
	"xml":  {"xml", decodeWith(ttlv.NewXMLDecoder)},
	"json": {"json", decodeWith(ttlv.NewJSONDecoder)},
}

// watchdog for the "never fails to terminate" clause
type c02watch struct {
	mu      sync.Mutex
	current map[int]c02running
}
type c02running struct {
	start time.Time
	desc  string
	data  []byte
}

var tailA = refttlv.Generate(&refttlv.Node{Tag: 0x420008, Type: refttlv.TStructure, Kids: []*refttlv.Node{{Tag: 0x42000A, Type: refttlv.TTextString, S: []byte("TAIL-A")}, {Tag: 0x42000B, Type: refttlv.TInteger, I: 77}}})
var tailB = refttlv.Generate(&refttlv.Node{Tag: 0x420094, Type: refttlv.TTextString, S: []byte("other-tail-BBBBBBBBBBBBBBBB")})

// c02Eval applies the oracle to one (input, codec, target).
func c02Eval(c *vlib.Check, cd codec, t decTarget, class string, input []byte) {
	exact := make([]byte, len(input))
	copy(exact, input)
	o1 := cd.decode(exact, t)
	rep := func() map[string]any {
		r := map[string]any{"kind": "input", "codec": cd.name, "target": t.name, "class": class}
		if cd.name == "ttlv" {
			r["hex"] = hex.EncodeToString(input)
		} else {
			r["document"] = string(input)
		}
		return r
	}
	if o1.panic != "" {
		c.Violation(fmt.Sprintf("panic:%s:%s:%s", cd.name, o1.site, o1.panic), fmt.Sprintf("decoding into %s panicked: %s (input class %s)", t.name, o1.panic, class), rep())
		return
	}
	if !bytes.Equal(exact, input) {
		c.Violation("input-mutated:"+cd.name, fmt.Sprintf("decoding into %s modified the input buffer (input class %s)", t.name, class), rep())
		return
	}
	o2 := cd.decode(exact, t)
	if !o1.same(o2) {
		c.Violation("second-decode-differs:"+cd.name, fmt.Sprintf("decoding the same bytes into %s twice gives different results (%v / %v)", t.name, o1.err, o2.err), rep())
		return
	}
	if cd.name == "ttlv" {
		// no over-read: same bytes inside larger backing arrays with two different tails
		for i, tail := range [][]byte{tailA, tailB} {
			big := make([]byte, 0, len(input)+len(tail))
			big = append(big, input...)
			big = append(big, tail...)
			o3 := cd.decode(big[:len(input)], t)
			if !bytes.Equal(big[:len(input)], input) || !bytes.Equal(big[len(input):], tail) {
				c.Violation("input-mutated:"+cd.name, fmt.Sprintf("decoding into %s modified the buffer (input class %s)", t.name, class), rep())
				return
			}
			if !o1.same(o3) {
				d := "a value"
				if o3.panic != "" {
					d = "a panic: " + o3.panic
				} else if o3.err != "" {
					d = "error " + o3.err
				}
				c.Violation("over-read:"+cd.name+":"+t.name, fmt.Sprintf("decoding into %s depends on bytes beyond the input (tail %d gives %s; exact slice gave err=%q)", t.name, i, d, o1.err), rep())
				return
			}
		}
		if t.name == "Value" && o1.err == "" {
			// library success => every item it returned lies inside its parent's declared extent, at the place and with
			// the value the bytes give it (guided by the decoded tree: items the library ignored are not judged)
			got, err := conv.FromValue(*o1.val.(*ttlv.Value))
			if err == nil {
				if cls, d := extentCheck(input, got, 0, len(input)); cls != "" {
					c.Violation("extent:"+cls, "the decoded generic value is not what the bytes inside the declared extents say: "+d, rep())
				}
			}
		}
	}
}

func pad8i(n int) int { return (n + 7) / 8 * 8 }

// extentCheck walks the raw bytes guided by the tree the library returned.
func extentCheck(raw []byte, n *refttlv.Node, off, end int) (class, detail string) {
	if off+8 > end {
		return "header-beyond-extent", fmt.Sprintf("item %06X decoded from offset %d but its enclosing extent ends at %d", n.Tag, off, end)
	}
	tag := uint32(raw[off])<<16 | uint32(raw[off+1])<<8 | uint32(raw[off+2])
	ty := raw[off+3]
	l := int(uint32(raw[off+4])<<24 | uint32(raw[off+5])<<16 | uint32(raw[off+6])<<8 | uint32(raw[off+7]))
	if tag != n.Tag || ty != n.Type {
		return "item-not-in-bytes", fmt.Sprintf("decoded item %06X/type %d, but the bytes at offset %d hold %06X/type %d", n.Tag, n.Type, off, tag, ty)
	}
	if off+8+l > end {
		return "value-beyond-extent", fmt.Sprintf("item %06X at offset %d announces %d bytes but its enclosing extent ends at %d", n.Tag, off, l, end)
	}
	if n.Type == refttlv.TStructure {
		o := off + 8
		for _, k := range n.Kids {
			if cls, d := extentCheck(raw, k, o, off+8+l); cls != "" {
				return cls, d
			}
			kl := int(uint32(raw[o+4])<<24 | uint32(raw[o+5])<<16 | uint32(raw[o+6])<<8 | uint32(raw[o+7]))
			o += 8 + pad8i(kl)
		}
		return "", ""
	}
	ref, _, err := refttlv.ParseExtent(raw[off : off+8+pad8min(l, end-off-8)])
	if err == nil && !refttlv.Equal(ref, n) {
		return "value-differs", fmt.Sprintf("item %06X at offset %d decoded as %s, the bytes say %s", n.Tag, off, n, ref)
	}
	return "", ""
}

func pad8min(l, avail int) int {
	p := pad8i(l)
	if p > avail {
		return l
	}
	return p
}

// c02job is one decoder input with the decoder it is meant for and the targets it is decoded into.
type job struct {
	class  string
	data   []byte
	codec  string
	target []int // indexes into decTargets
}

// c02Corpus builds the de-duplicated corpus of decoder inputs (shared by C02 and C18).
func c02Corpus(thorough bool) []job {
	allT := []int{}
	for i := range decTargets {
		allT = append(allT, i)
	}
	var jobs []job
	add := func(codec, class string, data []byte, targets []int) {
		jobs = append(jobs, job{class, data, codec, targets})
	}
	// (i) header grammar -> generic value, attribute (a structure target) and request message
	enum.HeaderGrammar(thorough, func(desc string, data []byte) { add("ttlv", "grammar:"+desc, data, []int{0, 7, 1}) })
	// (ii) deviations of valid encodings
	proj := &msg.Projector{Ver: [2]int{1, 4}, Gate: true}
	baseline := func(v any, targets []int) {
		t, err := proj.Project(v)
		if err != nil {
			panic(err)
		}
		enum.Mutations(enum.FromNode(t), func(desc string, data []byte) { add("ttlv", "mutation:"+desc, data, targets) })
	}
	for _, op := range msg.Operations() {
		baseline(msg.BaselineRequest(op, kmip.V1_4), []int{0, 1})
		baseline(msg.BaselineResponse(op, kmip.V1_4), []int{0, 2})
	}
	pl := func(op kmip.Operation, resp bool) any {
		if resp {
			return msg.BaselineResponse(op, kmip.V1_4).BatchItem[0].ResponsePayload
		}
		return msg.BaselineRequest(op, kmip.V1_4).BatchItem[0].RequestPayload
	}
	payloadBase := func(v any, tagName string, target int) {
		ns, err := proj.Project(v)
		_ = ns
		if err != nil {
			panic(err)
		}
		ns.Tag = tg(tagName)
		enum.Mutations(enum.FromNode(ns), func(desc string, data []byte) { add("ttlv", "mutation:"+desc, data, []int{0, target}) })
	}
	_ = payloadBase
	projTag := func(v any, tag uint32) *refttlv.Node {
		// project a payload under the payload tag: wrap it in a batch item and take the child
		switch p := v.(type) {
		case kmip.OperationPayload:
			it := kmip.RequestBatchItem{Operation: p.Operation(), RequestPayload: p}
			n, err := proj.Project(&kmip.RequestMessage{Header: kmip.RequestHeader{ProtocolVersion: kmip.V1_4, BatchCount: 1}, BatchItem: []kmip.RequestBatchItem{it}})
			if err != nil {
				panic(err)
			}
			k := n.Kids[1].Kids[1]
			k.Tag = tag
			return k
		}
		return nil
	}
	for _, x := range []struct {
		op     kmip.Operation
		resp   bool
		target int
	}{{kmip.OperationGet, true, 3}, {kmip.OperationRegister, false, 4}, {kmip.OperationImport, false, 5}, {kmip.OperationExport, true, 6}} {
		tag := uint32(kmip.TagRequestPayload)
		if x.resp {
			tag = kmip.TagResponsePayload
		}
		n := projTag(pl(x.op, x.resp), tag)
		enum.Mutations(enum.FromNode(n), func(desc string, data []byte) { add("ttlv", "mutation:"+desc, data, []int{0, x.target}) })
	}
	for _, a := range append(msg.StdAttributes(), msg.CustomAttributes()...) {
		a := a
		baseline(&a, []int{0, 7})
	}
	for _, kb := range msg.KeyBlocks() {
		kb := kb
		baseline(&kb, []int{0, 8})
	}
	for _, cr := range msg.Credentials() {
		cr := cr
		baseline(&cr, []int{0, 9})
	}
	treesN := 0
	enum.Trees(false, func(n *enum.N) {
		treesN++
		if treesN%7 == 0 || n.Type == refttlv.TStructure {
			enum.Mutations(enum.FromNode(n), func(desc string, data []byte) { add("ttlv", "mutation:"+desc, data, []int{0}) })
		}
	})
	// (iii) text documents
	c02TextJobs(thorough, func(codec, class string, doc []byte, targets []int) { add(codec, class, doc, targets) })

	// de-duplicate inputs per (codec, targets)
	seen := map[string]bool{}
	var uniq []job
	for _, j := range jobs {
		k := j.codec + fmt.Sprint(j.target) + string(j.data)
		if seen[k] {
			continue
		}
		seen[k] = true
		uniq = append(uniq, j)
	}
	jobs = uniq
	return jobs
}

func runC02(c *vlib.Check) {
	c.Rule = "binary: (i) header grammar — single items with every combination of tag {registered, 0, 0x54FFFF} x type byte {0..11, 0xFF} x declared length {0,1,3,4,7,8,9,15,16, true, true±1, true±8, 2^31-1, 2^32-1} x " +
		"value pattern x true length, alone / after a sibling / nested in structures; (ii) every single structural deviation {retype, every length, retag, delete, duplicate, swap, flip first bit, empty value, " +
		"non-zero padding, no padding, truncation at every offset} of the encodings of the 54 baseline messages, of every attribute, key block, credential and object, and of generic trees; " +
		"XML/JSON: per-node deviations {type name, value lexical alternatives, attribute removed, JSON kind replaced, non-string tag, non-object node/root} and truncation at every byte offset; " +
		"targets: generic value, request/response message, the four payloads with hand-written decoders, attribute, key block, credential; entry points Unmarshal*, Stream.Recv, HTTP handler. distinct = distinct inputs"
	c.Assumptions = []string{"byte strings that are neither in the header grammar nor single (thorough: double) deviations of valid encodings are not covered",
		"non-termination is decided by a 20 s watchdog per input (five orders of magnitude above the normal cost)"}
	jobs := c02Corpus(c.Thorough())
	w := &c02watch{current: map[int]c02running{}}
	var done int64
	stopWatch := make(chan struct{})
	go func() {
		for {
			select {
			case <-stopWatch:
				return
			case <-time.After(2 * time.Second):
			}
			w.mu.Lock()
			for _, r := range w.current {
				if time.Since(r.start) > 20*time.Second {
					c.Violation("non-termination", "decoding did not return within 20 s: "+r.desc, map[string]any{"kind": "input", "class": r.desc, "hex": hex.EncodeToString(r.data)})
					w.mu.Unlock()
					os.Exit(c.Finish())
				}
			}
			w.mu.Unlock()
		}
	}()
	var widx int64
	var wg sync.WaitGroup
	next := int64(-1)
	for k := 0; k < 16; k++ {
		wg.Add(1)
		go func() {
			defer wg.Done()
			id := int(atomic.AddInt64(&widx, 1))
			for {
				i := int(atomic.AddInt64(&next, 1))
				if i >= len(jobs) {
					return
				}
				j := jobs[i]
				w.mu.Lock()
				w.current[id] = c02running{time.Now(), j.codec + " " + j.class, j.data}
				w.mu.Unlock()
				c.Eval(append([]byte(j.codec), j.data...), true)
				for _, ti := range j.target {
					c02Eval(c, codecs[j.codec], decTargets[ti], j.class, j.data)
				}
				if i%20011 == 0 {
					if j.codec == "ttlv" {
						c.Sample(map[string]any{"class": j.class, "hex": hex.EncodeToString(j.data)})
					} else {
						c.Sample(map[string]any{"class": j.class, "document": short(string(j.data), 300)})
					}
				}
				atomic.AddInt64(&done, 1)
				w.mu.Lock()
				delete(w.current, id)
				w.mu.Unlock()
			}
		}()
	}
	wg.Wait()
	close(stopWatch)
	c02EntryPoints(c)
	c.Exhaustive = true
}

// c02EntryPoints: the same oracle ("returns, no panic") through Stream.Recv and the HTTP handler.
func c02EntryPoints(c *vlib.Check) {
	var inputs [][]byte
	enum.HeaderGrammar(false, func(desc string, data []byte) {
		if desc == "item" || desc == "item-in-structure" {
			inputs = append(inputs, data)
		}
	})
	t, _ := (&msg.Projector{Ver: [2]int{1, 4}, Gate: true}).Project(msg.BaselineRequest(kmip.OperationGet, kmip.V1_4))
	enum.Mutations(enum.FromNode(t), func(desc string, data []byte) { inputs = append(inputs, data) })
	exec := kmipserver.NewBatchExecutor()
	exec.Route(kmip.OperationGet, kmipserver.HandleFunc(func(ctx context.Context, req *payloads.GetRequestPayload) (*payloads.GetResponsePayload, error) {
		return nil, kmipserver.ErrItemNotFound
	}))
	handler := kmipserver.NewHTTPHandler(exec)
	vlib.Parallel(len(inputs), 0, func(i int) {
		data := inputs[i]
		c.Eval(append([]byte("entry"), data...), true)
		rep := map[string]any{"kind": "input", "codec": "ttlv", "class": "entry-point", "hex": hex.EncodeToString(data)}
		// Stream.Recv over a reader holding the bytes followed by another message (over-read would show up as a changed next message)
		next := refttlv.Generate(&refttlv.Node{Tag: 0x420069, Type: refttlv.TStructure})
		rw := &chunkReader{data: append(append([]byte{}, data...), next...)}
		st := ttlv.NewStream(rw, 1<<20)
		var v ttlv.Value
		if pv, site := vlib.Catch(func() { _ = st.Recv(&v) }); pv != nil {
			c.Violation("panic:stream:"+site+":"+classify(fmt.Sprint(pv)), fmt.Sprintf("Stream.Recv panicked: %v", pv), rep)
		}
		for _, ct := range []string{"application/octet-stream", "text/xml", "application/json"} {
			req := httptest.NewRequest(http.MethodPost, "/kmip", bytes.NewReader(data))
			req.Header.Set("Content-Type", ct)
			rec := httptest.NewRecorder()
			if pv, site := vlib.Catch(func() { handler.ServeHTTP(rec, req) }); pv != nil {
				c.Violation("panic:http:"+site+":"+classify(fmt.Sprint(pv)), fmt.Sprintf("HTTP handler panicked on content type %s: %v", ct, pv), rep)
			}
		}
	})
}

var _ = strings.TrimSpace
