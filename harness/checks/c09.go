package checks

import (
	"context"
	"errors"
	"fmt"
	"github.com/ovh/kmip-go/ttlv"
	"sort"
	"strings"
	"time"

	"github.com/ovh/kmip-go"
	"github.com/ovh/kmip-go/kmipserver"
	"github.com/ovh/kmip-go/payloads"
	"verifharness/vlib"
)

func init() { All["C09"] = Spec{"model_checking", runC09} }

// item outcomes
const (
	oOK = iota
	oTyped
	oPlain
	oPanic
	oUnrouted
	oCritExt
	oNonCritExt
	oDiscoverAll // built-in Discover Versions without a filter
	oDiscoverSub // built-in Discover Versions asking for {1.2, 1.0, 9.9}
	nOutcomes
)

// c09Split: an item outcome is a kind, optionally combined with a message extension (kind + 16*ext, ext 1 = non-critical,
// 2 = critical); the two legacy codes stand for a successful item with an extension.
func c09Split(o int) (kind, ext int) {
	switch o {
	case oCritExt:
		return oOK, 2
	case oNonCritExt:
		return oOK, 1
	}
	return o & 15, o >> 4
}

func c09OutcomeName(o int) string {
	if o < nOutcomes {
		return outcomeNames[o]
	}
	kind, ext := c09Split(o)
	return outcomeNames[kind] + []string{"", "+noncritical-ext", "+critical-ext"}[ext]
}

var outcomeNames = []string{"ok", "typed-error", "plain-error", "panic", "unrouted-op", "critical-ext", "noncritical-ext", "discover-all", "discover-filtered"}

var c09DefaultVersions = []kmip.ProtocolVersion{kmip.V1_4, kmip.V1_3, kmip.V1_2, kmip.V1_1, kmip.V1_0}
var c09Filter = []kmip.ProtocolVersion{kmip.V1_2, kmip.V1_0, {ProtocolVersionMajor: 9, ProtocolVersionMinor: 9}}
var c09Filtered = []kmip.ProtocolVersion{kmip.V1_2, kmip.V1_0}

type c09case struct {
	items   []int
	option  kmip.BatchErrorContinuationOption // 0 = unset
	badVer  bool
	countD  int
	withIDs bool
	verIdx  int // 0: 1.3 (or 3.7 when badVer); otherwise index into c09Versions
	cfgIdx  int // index into c09Configs (0 = executor left on its defaults)
	unrIdx  int // operation code of the unrouted items: index into c09UnroutedCodes (0 = Revoke, a standard operation without route)
	ctxMode int // state of the context HandleRequest is called with: 0 live, 1 already cancelled, 2 deadline already expired, 3+i cancelled by the handler of item i
}

// operation codes without a route: a standard operation, and codes outside the standard range whose low bits are those of the
// routed operation (Activate, 0x12)
var c09UnroutedCodes = []kmip.Operation{kmip.OperationRevoke, 0x52, 0x112, 0x10012, 0x80000012, 0x54}

var c09CtxNames = []string{"live", "already cancelled", "deadline already expired", "cancelled during item 0", "cancelled during item 1"}

// request versions and executor configurations of the version x configuration part
var c09Versions = []kmip.ProtocolVersion{{}, {ProtocolVersionMajor: 0, ProtocolVersionMinor: 0}, kmip.V1_0, kmip.V1_2, kmip.V1_4, {ProtocolVersionMajor: 3, ProtocolVersionMinor: 7}, {ProtocolVersionMajor: 1, ProtocolVersionMinor: 5}, {ProtocolVersionMajor: 0, ProtocolVersionMinor: 4}}
var c09Configs = [][]kmip.ProtocolVersion{nil, {kmip.V1_4, kmip.V1_3, kmip.V1_2, kmip.V1_1, kmip.V1_0}, {kmip.V1_3}, {kmip.V1_0, kmip.V1_3, kmip.V1_4}, {kmip.V1_4, kmip.V1_4, kmip.V1_2}}

func (k c09case) version() kmip.ProtocolVersion {
	if k.verIdx > 0 {
		return c09Versions[k.verIdx]
	}
	if k.badVer {
		return kmip.ProtocolVersion{ProtocolVersionMajor: 3, ProtocolVersionMinor: 7}
	}
	return kmip.V1_3
}

func (k c09case) supported() []kmip.ProtocolVersion {
	if c := c09Configs[k.cfgIdx]; c != nil {
		return c
	}
	return c09DefaultVersions
}

func (k c09case) String() string {
	var it []string
	for _, o := range k.items {
		it = append(it, c09OutcomeName(o))
	}
	ext := ""
	if k.verIdx > 0 || k.cfgIdx > 0 {
		v := k.version()
		ext = fmt.Sprintf(" version=%d.%d executor=SetSupportedProtocolVersions%v", v.ProtocolVersionMajor, v.ProtocolVersionMinor, c09Configs[k.cfgIdx])
	}
	if k.ctxMode > 0 {
		ext += " context=" + c09CtxNames[k.ctxMode]
	}
	if k.unrIdx > 0 {
		ext += fmt.Sprintf(" unroutedOperation=0x%X", uint32(c09UnroutedCodes[k.unrIdx]))
	}
	return fmt.Sprintf("items=[%s] option=%d unsupportedVersion=%v countDelta=%+d ids=%v%s", strings.Join(it, ","), k.option, k.badVer, k.countD, k.withIDs, ext)
}

func runC09(c *vlib.Check) {
	maxLen, histLen := 4, 1
	if c.Thorough() {
		maxLen, histLen = 5, 2
	}
	c.Rule = fmt.Sprintf("explicit-state enumeration: every batch of length 0..%d x continuation option {unset, Continue, Stop, Undo} x per-item outcome {success, typed error, plain error, panic, "+
		"unrouted operation, critical extension, non-critical extension, built-in Discover Versions without / with a version filter} x {supported, unsupported} version x batch count {match, +1, -1} x {with, without} item IDs, each run on the real "+
		"BatchExecutor.HandleRequest and compared field by field (and by handler call log) with a reference executor; extension x kind part: every item kind x {non-critical, critical} message extension in batches of length <= 2; version x configuration part: request versions {0.0, 1.0, 1.2, 1.4, 3.7, 1.5, 0.4} x executors {default, SetSupportedProtocolVersions with the full, a singleton, a gapped and a duplicated list} x batches of length <= 2 (rejected iff the version is not in the configured set); unrouted-code part: the unrouted items of batches of length <= 2 with operation codes {0x52, 0x112, 0x10012, 0x80000012, 0x54} (outside the standard range, low bits of the routed operation) instead of a standard unrouted operation; context part: batches of length <= 2 handled with a context that is already cancelled / past its deadline / cancelled by the handler of item 0 or 1 (same reference: the state of the caller's context is not among the causes of rejection); history part: every ordered pair of such requests of length <= %d through one executor (the outcome of a request must not depend on the requests the executor processed before); states = distinct (batch, configuration) cases, transitions = handler calls + response items compared", maxLen, histLen)
	c.Assumptions = []string{"when several rejection causes apply at once the property does not say which reason is reported: only 'single failed item, no handler executed' is required",
		"'random longer batches' of the quantifier are not covered (sampling is another technique); the exhaustive length bound is stated in the rule"}
	var cases []c09case
	var gen func(items []int)
	gen = func(items []int) {
		for _, opt := range []kmip.BatchErrorContinuationOption{0, kmip.BatchErrorContinuationOptionContinue, kmip.BatchErrorContinuationOptionStop, kmip.BatchErrorContinuationOptionUndo} {
			for _, bv := range []bool{false, true} {
				for _, cd := range []int{0, 1, -1} {
					for _, ids := range []bool{true, false} {
						cases = append(cases, c09case{items: append([]int{}, items...), option: opt, badVer: bv, countD: cd, withIDs: ids})
					}
				}
			}
		}
		if len(items) == maxLen {
			return
		}
		for o := 0; o < nOutcomes; o++ {
			gen(append(items, o))
		}
	}
	gen(nil)
	vlib.Parallel(len(cases), 0, func(i int) { c09One(c, cases[i], i) })
	// extension x kind part: every item kind combined with {no, non-critical, critical} message extension, batches of length
	// <= 2 (a critical extension fails the item whatever its operation and keeps its handler from running)
	var ecases []c09case
	{
		var alpha []int
		for _, kind := range []int{oOK, oTyped, oPlain, oPanic, oUnrouted, oDiscoverAll, oDiscoverSub} {
			for ext := 1; ext <= 2; ext++ {
				alpha = append(alpha, kind+16*ext)
			}
		}
		full := append([]int{oOK, oTyped, oUnrouted, oDiscoverAll}, alpha...)
		for _, a := range alpha {
			for _, opt := range []kmip.BatchErrorContinuationOption{0, kmip.BatchErrorContinuationOptionContinue, kmip.BatchErrorContinuationOptionStop} {
				for _, ids := range []bool{true, false} {
					ecases = append(ecases, c09case{items: []int{a}, option: opt, withIDs: ids})
					for _, b := range full {
						ecases = append(ecases, c09case{items: []int{a, b}, option: opt, withIDs: ids}, c09case{items: []int{b, a}, option: opt, withIDs: ids})
					}
				}
			}
		}
	}
	vlib.Parallel(len(ecases), 0, func(i int) { c09One(c, ecases[i], 1) })
	c.Extra["extension_x_kind_cases"] = len(ecases)
	// version x configuration part: every request version of c09Versions against every executor configuration of c09Configs
	// (SetSupportedProtocolVersions with full / singleton / gapped / duplicated lists), batches of length <= 2
	var vcases []c09case
	for _, k := range cases {
		if len(k.items) > 2 || k.badVer {
			continue
		}
		for cfg := range c09Configs {
			for vi := 1; vi < len(c09Versions); vi++ {
				kk := k
				kk.verIdx, kk.cfgIdx = vi, cfg
				vcases = append(vcases, kk)
			}
		}
	}
	vlib.Parallel(len(vcases), 0, func(i int) { c09One(c, vcases[i], 1) })
	c.Extra["version_x_configuration_cases"] = len(vcases)
	// context part: the same batches of length <= 2 (well-formed header) handled with a context that is already cancelled, already
	// past its deadline, or cancelled by the handler of item 0 / item 1: same reference
	var ccases []c09case
	for _, k := range cases {
		if len(k.items) == 0 || len(k.items) > 2 || k.badVer || k.countD != 0 {
			continue
		}
		for m := 1; m < len(c09CtxNames); m++ {
			kk := k
			kk.ctxMode = m
			ccases = append(ccases, kk)
		}
	}
	vlib.Parallel(len(ccases), 0, func(i int) { c09One(c, ccases[i], 1) })
	c.Extra["context_cases"] = len(ccases)
	// unrouted-code part: every batch of length <= 2 holding an unrouted item, with that item's operation code taken from
	// c09UnroutedCodes (codes outside the standard range sharing their low bits with the routed operation)
	var ucases []c09case
	for _, k := range cases {
		has := false
		for _, o := range k.items {
			if kind, _ := c09Split(o); kind == oUnrouted {
				has = true
			}
		}
		if !has || len(k.items) > 2 || k.badVer || k.countD != 0 {
			continue
		}
		for u := 1; u < len(c09UnroutedCodes); u++ {
			kk := k
			kk.unrIdx = u
			ucases = append(ucases, kk)
		}
	}
	vlib.Parallel(len(ucases), 0, func(i int) { c09One(c, ucases[i], 1) })
	c.Extra["unrouted_code_cases"] = len(ucases)
	// history part: every ordered pair of requests from the cases of length <= histLen, both through ONE executor; the
	// second response (and the first) must satisfy the same reference as on a fresh executor
	var hcases []c09case
	for _, k := range cases {
		if len(k.items) <= histLen {
			hcases = append(hcases, k)
		}
	}
	var pairs int64
	vlib.Parallel(len(hcases), 0, func(i int) {
		for j := range hcases {
			x := newC09Exec()
			c09Check(c, x, hcases[i], "")
			c09Check(c, x, hcases[j], hcases[i].String())
		}
		c.Mu(func() {
			c.Evaluations += int64(len(hcases))
			c.DistinctN += int64(len(hcases))
			pairs += int64(len(hcases))
		})
	})
	c.Extra["history_pairs"] = pairs
	c.States = int64(len(cases)+len(vcases)+len(ecases)+len(ccases)+len(ucases)) + pairs
	c.Traces = int64(len(cases)+len(vcases)+len(ecases)+len(ccases)+len(ucases)) + 2*pairs
	c.Exhaustive = true
}

// c09Exec is one real executor with its handler call log.
type c09Exec struct {
	exec     *kmipserver.BatchExecutor
	calls    []int
	cancelAt int // item whose handler cancels the request's context (-1: none)
	cancel   context.CancelFunc
}

func newC09Exec(cfgIdx ...int) *c09Exec {
	x := &c09Exec{exec: kmipserver.NewBatchExecutor(), cancelAt: -1}
	if len(cfgIdx) > 0 && c09Configs[cfgIdx[0]] != nil {
		x.exec.SetSupportedProtocolVersions(append([]kmip.ProtocolVersion{}, c09Configs[cfgIdx[0]]...)...)
	}
	x.exec.Route(kmip.OperationActivate, kmipserver.HandleFunc(func(ctx context.Context, req *payloads.ActivateRequestPayload) (*payloads.ActivateResponsePayload, error) {
		var i, o int
		fmt.Sscanf(req.UniqueIdentifier, "%d:%d", &i, &o)
		x.calls = append(x.calls, i)
		if i == x.cancelAt && x.cancel != nil {
			x.cancel()
		}
		switch o & 15 {
		case oTyped:
			return nil, kmipserver.Errorf(kmip.ResultReasonItemNotFound, "typed")
		case oPlain:
			return nil, errors.New("plain")
		case oPanic:
			panic("boom")
		}
		return &payloads.ActivateResponsePayload{UniqueIdentifier: req.UniqueIdentifier}, nil
	}))
	return x
}

func c09One(c *vlib.Check, k c09case, idx int) {
	c.Eval([]byte(k.String()), len(k.items) > 0)
	if idx%5003 == 0 {
		c.Sample(k.String())
	}
	c09Check(c, newC09Exec(k.cfgIdx), k, "")
}

// c09Check sends the request of case k through the executor x and compares the outcome with the reference; history
// describes the requests x has already processed ("" for a fresh executor).
func c09Check(c *vlib.Check, x *c09Exec, k c09case, history string) {
	x.calls = nil
	exec := x.exec
	ver := k.version()
	verOK := false
	for _, sv := range k.supported() {
		if sv == ver {
			verOK = true
		}
	}
	req := &kmip.RequestMessage{Header: kmip.RequestHeader{ProtocolVersion: ver, BatchErrorContinuationOption: k.option, BatchCount: int32(len(k.items) + k.countD)}}
	for i, o := range k.items {
		bi := kmip.RequestBatchItem{Operation: kmip.OperationActivate, RequestPayload: &payloads.ActivateRequestPayload{UniqueIdentifier: fmt.Sprintf("%d:%d", i, o)}}
		kind, ext := c09Split(o)
		if kind == oUnrouted {
			bi.Operation = kmip.OperationRevoke
			bi.RequestPayload = &payloads.RevokeRequestPayload{UniqueIdentifier: "x"}
			if k.unrIdx > 0 {
				// a code nobody routed, carrying what would be a valid payload for the routed operation
				bi.Operation = c09UnroutedCodes[k.unrIdx]
				bi.RequestPayload = &payloads.ActivateRequestPayload{UniqueIdentifier: fmt.Sprintf("%d:%d", i, oOK)}
			}
		}
		if kind == oDiscoverAll || kind == oDiscoverSub {
			bi.Operation = kmip.OperationDiscoverVersions
			pl := &payloads.DiscoverVersionsRequestPayload{}
			if kind == oDiscoverSub {
				pl.ProtocolVersion = append([]kmip.ProtocolVersion{}, c09Filter...)
			}
			bi.RequestPayload = pl
		}
		if ext != 0 {
			bi.MessageExtension = &kmip.MessageExtension{VendorIdentification: "v", CriticalityIndicator: ext == 2}
		}
		if k.withIDs {
			bi.UniqueBatchItemID = []byte{byte(0xA0 + i)}
		}
		req.BatchItem = append(req.BatchItem, bi)
	}
	rep := map[string]any{"kind": "batch", "case": k.String()}
	if history != "" {
		rep["history"] = history
	}
	var resp *kmip.ResponseMessage
	// what happens to a batch does not depend on the state of the caller's context: the handlers decide what they do with it
	ctx, cancel := context.WithCancel(context.Background())
	x.cancelAt, x.cancel = -1, nil
	switch {
	case k.ctxMode == 1:
		cancel()
	case k.ctxMode == 2:
		var c2 context.CancelFunc
		ctx, c2 = context.WithDeadline(ctx, time.Unix(1, 0))
		defer c2()
	case k.ctxMode >= 3:
		x.cancelAt, x.cancel = k.ctxMode-3, cancel
	}
	defer cancel()
	if pv, site := vlib.Catch(func() { resp = exec.HandleRequest(ctx, req) }); pv != nil {
		c.Violation("panic:"+site, fmt.Sprintf("HandleRequest panicked: %v on %s", pv, k), rep)
		return
	}
	x.cancelAt, x.cancel = -1, nil
	calls := x.calls
	fail := func(sig, format string, a ...any) {
		if history != "" {
			c.Violation("history:"+sig, fmt.Sprintf(format, a...)+" — "+k.String()+" — on an executor that had already processed: "+history, rep)
			return
		}
		c.Violation(sig, fmt.Sprintf(format, a...)+" — "+k.String(), rep)
	}
	if resp == nil {
		fail("nil-response", "nil response")
		return
	}
	c.Mu(func() { c.Transitions += int64(len(calls) + len(resp.BatchItem)) })
	// the all-zero ProtocolVersion is the Go zero value, i.e. "the request carried no version": there is nothing to echo then
	// (the library answers such a request as 1.0); every other version, supported or not, must come back in the header
	if resp.Header.ProtocolVersion != ver && ver != (kmip.ProtocolVersion{}) {
		fail("header-version", "response header version %v, request had %v", resp.Header.ProtocolVersion, ver)
	}
	rejected := !verOK || k.option == kmip.BatchErrorContinuationOptionUndo || k.countD != 0
	if rejected {
		if len(calls) != 0 {
			fail("handler-run-on-rejected-request", "%d handler(s) executed although the request must be rejected", len(calls))
		}
		if len(resp.BatchItem) != 1 || resp.Header.BatchCount != 1 || resp.BatchItem[0].ResultStatus != kmip.ResultStatusOperationFailed {
			fail("rejection-shape", "rejected request answered with %d item(s), count %d", len(resp.BatchItem), resp.Header.BatchCount)
		}
		return
	}
	// reference executor
	n := len(k.items)
	wantCalls := []int{}
	wantOK := make([]bool, n)
	stopped := false
	for i, o := range k.items {
		if stopped {
			continue
		}
		kind, ext := c09Split(o)
		executed := ext != 2 && kind != oUnrouted && kind != oDiscoverAll && kind != oDiscoverSub
		if executed {
			wantCalls = append(wantCalls, i)
		}
		wantOK[i] = ext != 2 && (kind == oOK || kind == oDiscoverAll || kind == oDiscoverSub)
		if !wantOK[i] && k.option == kmip.BatchErrorContinuationOptionStop {
			stopped = true
		}
	}
	if len(resp.BatchItem) != n || int(resp.Header.BatchCount) != n {
		fail("item-count", "response has %d items / batch count %d for %d request items", len(resp.BatchItem), resp.Header.BatchCount, n)
		return
	}
	if fmt.Sprint(calls) != fmt.Sprint(wantCalls) {
		fail("handler-call-log", "handlers ran for items %v, reference says %v", calls, wantCalls)
	}
	for i := range k.items {
		bi := resp.BatchItem[i]
		if bi.Operation != req.BatchItem[i].Operation {
			fail("operation-echo", "item %d echoes operation %v instead of %v", i, bi.Operation, req.BatchItem[i].Operation)
		}
		if string(bi.UniqueBatchItemID) != string(req.BatchItem[i].UniqueBatchItemID) {
			fail("id-echo", "item %d echoes ID %x instead of %x", i, bi.UniqueBatchItemID, req.BatchItem[i].UniqueBatchItemID)
		}
		gotOK := bi.ResultStatus == kmip.ResultStatusSuccess
		if gotOK != wantOK[i] {
			fail("item-status", "item %d has status %v, reference expects success=%v", i, bi.ResultStatus, wantOK[i])
		}
		kindI, _ := c09Split(k.items[i])
		if gotOK && (kindI == oDiscoverAll || kindI == oDiscoverSub) {
			var got []kmip.ProtocolVersion
			switch pl := bi.ResponsePayload.(type) {
			case *payloads.DiscoverVersionsResponsePayload:
				got = pl.ProtocolVersion
			case *payloads.DiscoverVersionsRequestPayload: // the built-in handler answers with this type (same wire form)
				got = pl.ProtocolVersion
			default:
				fail("item-payload", "item %d (discover versions) carries %T", i, bi.ResponsePayload)
				continue
			}
			want := c09DefaultVersions
			if kindI == oDiscoverSub {
				want = c09Filtered
			}
			if k.cfgIdx > 0 {
				// a configured executor keeps its own order: compare as sets (the configured set, filtered)
				want = nil
				for _, sv := range []kmip.ProtocolVersion{kmip.V1_0, kmip.V1_1, kmip.V1_2, kmip.V1_3, kmip.V1_4} {
					in := false
					for _, cv := range k.supported() {
						in = in || cv == sv
					}
					if in && (kindI == oDiscoverAll || sv == kmip.V1_2 || sv == kmip.V1_0) {
						want = append(want, sv)
					}
				}
				got = append([]kmip.ProtocolVersion{}, got...)
				sort.Slice(got, func(a, b int) bool { return ttlv.CompareVersions(got[a], got[b]) < 0 })
			}
			if fmt.Sprint(got) != fmt.Sprint(want) {
				fail("discover-versions-list", "item %d lists versions %v, the executor supports %v and the request asked for %v", i, got, c09DefaultVersions, req.BatchItem[i].RequestPayload.(*payloads.DiscoverVersionsRequestPayload).ProtocolVersion)
			}
		} else if gotOK {
			pl, ok := bi.ResponsePayload.(*payloads.ActivateResponsePayload)
			if !ok || pl.UniqueIdentifier != fmt.Sprintf("%d:%d", i, k.items[i]) {
				fail("item-payload", "item %d carries the wrong payload", i)
			}
		}
	}
}
