package checks

import (
	"context"
	"errors"
	"fmt"
	"strings"

	"github.com/ovh/kmip-go"
	"github.com/ovh/kmip-go/kmipserver"
	"github.com/ovh/kmip-go/payloads"
	"verifharness/vlib"
)

func init() { All["C09"] = Spec{"model_checking", runC09} }

// item outcomes
const (
	oOK = iota
	oTyped
	oPlain
	oPanic
	oUnrouted
	oCritExt
	oNonCritExt
	nOutcomes
)

var outcomeNames = []string{"ok", "typed-error", "plain-error", "panic", "unrouted-op", "critical-ext", "noncritical-ext"}

type c09case struct {
	items   []int
	option  kmip.BatchErrorContinuationOption // 0 = unset
	badVer  bool
	countD  int
	withIDs bool
}

func (k c09case) String() string {
	var it []string
	for _, o := range k.items {
		it = append(it, outcomeNames[o])
	}
	return fmt.Sprintf("items=[%s] option=%d unsupportedVersion=%v countDelta=%+d ids=%v", strings.Join(it, ","), k.option, k.badVer, k.countD, k.withIDs)
}

func runC09(c *vlib.Check) {
	maxLen := 4
	if c.Thorough() {
		maxLen = 6
	}
	c.Rule = fmt.Sprintf("explicit-state enumeration: every batch of length 0..%d x continuation option {unset, Continue, Stop, Undo} x per-item outcome {success, typed error, plain error, panic, "+
		"unrouted operation, critical extension, non-critical extension} x {supported, unsupported} version x batch count {match, +1, -1} x {with, without} item IDs, each run on the real "+
		"BatchExecutor.HandleRequest and compared field by field (and by handler call log) with a reference executor; states = distinct (batch, configuration) cases, transitions = handler calls + response items compared", maxLen)
	c.Assumptions = []string{"when several rejection causes apply at once the property does not say which reason is reported: only 'single failed item, no handler executed' is required",
		"'random longer batches' of the quantifier are not covered (sampling is another technique); the exhaustive length bound is stated in the rule"}
	var cases []c09case
	var gen func(items []int)
	gen = func(items []int) {
		for _, opt := range []kmip.BatchErrorContinuationOption{0, kmip.BatchErrorContinuationOptionContinue, kmip.BatchErrorContinuationOptionStop, kmip.BatchErrorContinuationOptionUndo} {
			for _, bv := range []bool{false, true} {
				for _, cd := range []int{0, 1, -1} {
					for _, ids := range []bool{true, false} {
						cases = append(cases, c09case{append([]int{}, items...), opt, bv, cd, ids})
					}
				}
			}
		}
		if len(items) == maxLen {
			return
		}
		for o := 0; o < nOutcomes; o++ {
			gen(append(items, o))
		}
	}
	gen(nil)
	vlib.Parallel(len(cases), 0, func(i int) { c09One(c, cases[i], i) })
	c.States = int64(len(cases))
	c.Traces = int64(len(cases))
	c.Exhaustive = true
}

func c09One(c *vlib.Check, k c09case, idx int) {
	var calls []int // handler call log (item indexes)
	exec := kmipserver.NewBatchExecutor()
	exec.Route(kmip.OperationActivate, kmipserver.HandleFunc(func(ctx context.Context, req *payloads.ActivateRequestPayload) (*payloads.ActivateResponsePayload, error) {
		var i, o int
		fmt.Sscanf(req.UniqueIdentifier, "%d:%d", &i, &o)
		calls = append(calls, i)
		switch o {
		case oTyped:
			return nil, kmipserver.Errorf(kmip.ResultReasonItemNotFound, "typed")
		case oPlain:
			return nil, errors.New("plain")
		case oPanic:
			panic("boom")
		}
		return &payloads.ActivateResponsePayload{UniqueIdentifier: req.UniqueIdentifier}, nil
	}))
	ver := kmip.V1_3
	if k.badVer {
		ver = kmip.ProtocolVersion{ProtocolVersionMajor: 3, ProtocolVersionMinor: 7}
	}
	req := &kmip.RequestMessage{Header: kmip.RequestHeader{ProtocolVersion: ver, BatchErrorContinuationOption: k.option, BatchCount: int32(len(k.items) + k.countD)}}
	for i, o := range k.items {
		bi := kmip.RequestBatchItem{Operation: kmip.OperationActivate, RequestPayload: &payloads.ActivateRequestPayload{UniqueIdentifier: fmt.Sprintf("%d:%d", i, o)}}
		if o == oUnrouted {
			bi.Operation = kmip.OperationRevoke
			bi.RequestPayload = &payloads.RevokeRequestPayload{UniqueIdentifier: "x"}
		}
		if o == oCritExt || o == oNonCritExt {
			bi.MessageExtension = &kmip.MessageExtension{VendorIdentification: "v", CriticalityIndicator: o == oCritExt}
		}
		if k.withIDs {
			bi.UniqueBatchItemID = []byte{byte(0xA0 + i)}
		}
		req.BatchItem = append(req.BatchItem, bi)
	}
	c.Eval([]byte(k.String()), len(k.items) > 0)
	if idx%5003 == 0 {
		c.Sample(k.String())
	}
	rep := map[string]any{"kind": "batch", "case": k.String()}
	var resp *kmip.ResponseMessage
	if pv, site := vlib.Catch(func() { resp = exec.HandleRequest(context.Background(), req) }); pv != nil {
		c.Violation("panic:"+site, fmt.Sprintf("HandleRequest panicked: %v on %s", pv, k), rep)
		return
	}
	fail := func(sig, format string, a ...any) {
		c.Violation(sig, fmt.Sprintf(format, a...)+" — "+k.String(), rep)
	}
	if resp == nil {
		fail("nil-response", "nil response")
		return
	}
	c.Mu(func() { c.Transitions += int64(len(calls) + len(resp.BatchItem)) })
	if resp.Header.ProtocolVersion != ver {
		fail("header-version", "response header version %v, request had %v", resp.Header.ProtocolVersion, ver)
	}
	rejected := k.badVer || k.option == kmip.BatchErrorContinuationOptionUndo || k.countD != 0
	if rejected {
		if len(calls) != 0 {
			fail("handler-run-on-rejected-request", "%d handler(s) executed although the request must be rejected", len(calls))
		}
		if len(resp.BatchItem) != 1 || resp.Header.BatchCount != 1 || resp.BatchItem[0].ResultStatus != kmip.ResultStatusOperationFailed {
			fail("rejection-shape", "rejected request answered with %d item(s), count %d", len(resp.BatchItem), resp.Header.BatchCount)
		}
		return
	}
	// reference executor
	n := len(k.items)
	wantCalls := []int{}
	wantOK := make([]bool, n)
	stopped := false
	for i, o := range k.items {
		if stopped {
			continue
		}
		executed := o != oUnrouted && o != oCritExt
		if executed {
			wantCalls = append(wantCalls, i)
		}
		wantOK[i] = o == oOK || o == oNonCritExt
		if !wantOK[i] && k.option == kmip.BatchErrorContinuationOptionStop {
			stopped = true
		}
	}
	if len(resp.BatchItem) != n || int(resp.Header.BatchCount) != n {
		fail("item-count", "response has %d items / batch count %d for %d request items", len(resp.BatchItem), resp.Header.BatchCount, n)
		return
	}
	if fmt.Sprint(calls) != fmt.Sprint(wantCalls) {
		fail("handler-call-log", "handlers ran for items %v, reference says %v", calls, wantCalls)
	}
	for i := range k.items {
		bi := resp.BatchItem[i]
		if bi.Operation != req.BatchItem[i].Operation {
			fail("operation-echo", "item %d echoes operation %v instead of %v", i, bi.Operation, req.BatchItem[i].Operation)
		}
		if string(bi.UniqueBatchItemID) != string(req.BatchItem[i].UniqueBatchItemID) {
			fail("id-echo", "item %d echoes ID %x instead of %x", i, bi.UniqueBatchItemID, req.BatchItem[i].UniqueBatchItemID)
		}
		gotOK := bi.ResultStatus == kmip.ResultStatusSuccess
		if gotOK != wantOK[i] {
			fail("item-status", "item %d has status %v, reference expects success=%v", i, bi.ResultStatus, wantOK[i])
		}
		if gotOK {
			pl, ok := bi.ResponsePayload.(*payloads.ActivateResponsePayload)
			if !ok || pl.UniqueIdentifier != fmt.Sprintf("%d:%d", i, k.items[i]) {
				fail("item-payload", "item %d carries the wrong payload", i)
			}
		}
	}
}
