package checks

import (
	"bytes"
	"encoding/hex"
	"fmt"
	"math/big"
	"os"
	"path/filepath"
	"reflect"
	"regexp"
	"sort"
	"strings"
	"sync/atomic"
	"time"
	"unicode/utf8"

	"github.com/ovh/kmip-go"
	"github.com/ovh/kmip-go/ttlv"
	"verifharness/msg"
	"verifharness/pinned"
	"verifharness/reftext"
	"verifharness/refttlv"
	"verifharness/vlib"
)

func init() { All["C04"] = Spec{"exploration", runC04} }

type textEnc struct {
	name      string
	marshal   func(any) []byte
	unmarshal func([]byte, any) error
	parse     func([]byte) (*refttlv.Node, error)
}

var textEncs = []textEnc{
	{"xml", ttlv.MarshalXML, ttlv.UnmarshalXML, reftext.XMLToTree},
	{"json", ttlv.MarshalJSON, ttlv.UnmarshalJSON, reftext.JSONToTree},
}

func short(s string, n int) string {
	if len(s) > n {
		return s[:n] + "…"
	}
	return s
}

// c04Value checks one value (a message or a generic item) through one text encoding against its binary encoding.
// what = signature prefix; fresh = constructor of an empty value of the same Go type.
func c04Value(c *vlib.Check, e textEnc, what, label string, v any, fresh func() any) {
	var bin []byte
	if pv, _ := vlib.Catch(func() { bin = append([]byte{}, ttlv.MarshalTTLV(v)...) }); pv != nil {
		return // binary encoding problems belong to C01/C03
	}
	btree, err := refttlv.ParseStrict(bin)
	if err != nil {
		return
	}
	rep := map[string]any{"kind": "value", "encoding": e.name, "case": label, "binary_hex": hex.EncodeToString(bin)}
	var doc []byte
	if pv, site := vlib.Catch(func() { doc = append([]byte{}, e.marshal(v)...) }); pv != nil {
		c.Violation(what+":"+e.name+":encode-panic:"+site, fmt.Sprintf("%s encoding of %s panicked: %v", e.name, label, pv), rep)
		return
	}
	c.Eval(append([]byte(e.name), doc...), true)
	rep["document"] = short(string(doc), 4000)
	tree, err := e.parse(doc)
	if err != nil {
		c.Violation(what+":"+e.name+":not-wellformed:"+ErrClass(err), fmt.Sprintf("the %s document produced for %s is rejected by the independent parser: %v", e.name, label, err), rep)
		return
	}
	if cls, path := msg.Diff(tree, btree); cls != "" {
		c.Violation(what+":"+e.name+":document-differs-from-binary:"+cls+":"+lastSeg(path), fmt.Sprintf("the %s document of %s does not carry the same information as the binary encoding: %s at %s", e.name, label, cls, path), rep)
		return
	}
	back := fresh()
	var derr error
	if pv, site := vlib.Catch(func() { derr = e.unmarshal(append([]byte{}, doc...), back) }); pv != nil {
		c.Violation(what+":"+e.name+":decode-panic:"+site, fmt.Sprintf("decoding the %s document of %s panicked: %v", e.name, label, pv), rep)
		return
	}
	if derr != nil {
		c.Violation(what+":"+e.name+":decode-error:"+ErrClass(derr), fmt.Sprintf("the library cannot read back its own %s document of %s: %v", e.name, label, derr), rep)
		return
	}
	var bin2 []byte
	if pv, site := vlib.Catch(func() { bin2 = ttlv.MarshalTTLV(reflect.ValueOf(back).Elem().Interface()) }); pv != nil {
		c.Violation(what+":"+e.name+":reencode-panic:"+site, fmt.Sprintf("%s: %v", label, pv), rep)
		return
	}
	if !bytes.Equal(bin, bin2) {
		t2, _, _ := refttlv.ParseExtent(bin2)
		cls, path := "?", "?"
		if t2 != nil {
			cls, path = msg.Diff(t2, btree)
		}
		c.Violation(what+":"+e.name+":binary-differs-after-text-roundtrip:"+cls+":"+lastSeg(path), fmt.Sprintf("%s: decoding the %s document and re-encoding to binary differs from the original binary encoding (%s at %s)", label, e.name, cls, path), rep)
	}
}

func lastSeg(p string) string {
	if i := strings.LastIndex(p, "/"); i >= 0 {
		return p[i+1:]
	}
	return p
}

func freshValue() any { return &ttlv.Value{} }

func runC04(c *vlib.Check) {
	c.Rule = "(1) the C01 message space (rich baselines + every single-site deviation, 27 operations x 2 directions x 5 versions) x {XML, JSON}, repeated in a fresh child process that first uses every message type at version 1.4; (2) one-item sweeps: every Unicode scalar value the format can carry as a " +
		"one-character text string (quick: all < U+0800 plus class boundaries; thorough: all), every registered and three unregistered values of every enumeration, masks {0, every single bit, every pair of bits, all ones} " +
		"for both mask types, long/big integers around 2^52/2^63/2^64, dates at years 1 and 9999, six instants held in four time zones and written with their offset by another implementation; (3) every request/response of the 410 OASIS vector files whose operations are implemented, " +
		"decoded and re-encoded in XML and compared element by element with the vector. distinct = distinct documents"
	c.Assumptions = []string{"independent judges: Go encoding/xml (strict) and encoding/json with own value lexers (package reftext), names resolved through the pinned registry",
		"vector comparison normalises lexical form only: hex case, big integers by value, masks as sets of flags, enumerations by number, dates as instants",
		"XML text is restricted to the XML 1.0 Char production; dates to years 1..9999; time zone UTC"}
	// (1) messages
	var jobs []c01job
	for _, op := range msg.Operations() {
		jobs = append(jobs, c01job{op, false}, c01job{op, true})
	}
	warmFirstUse(jobs)
	vlib.Parallel(len(jobs), 0, func(i int) {
		n := 0
		msg.Enumerate(jobs[i].op, jobs[i].resp, 1, func(cs msg.Case) {
			// the text forms do not depend on the version beyond gating: all versions are still enumerated
			for _, e := range textEncs {
				c04Value(c, e, "message", cs.Name, cs.Msg, func() any { return reflect.New(reflect.TypeOf(cs.Msg).Elem()).Interface() })
			}
			n++
			if n == 5 && i == 0 {
				c.Sample(map[string]any{"case": cs.Name, "xml": short(string(ttlv.MarshalXML(cs.Msg)), 600)})
			}
		})
	})
	msg.ExtraCases(func(cs msg.Case) {
		for _, e := range textEncs {
			c04Value(c, e, "message", cs.Name, cs.Msg, func() any { return reflect.New(reflect.TypeOf(cs.Msg).Elem()).Interface() })
		}
	})
	if vlib.History() != "" { // a child process repeats part (1) only (see RunHistories)
		c.Exhaustive = true
		return
	}
	// (2) sweeps
	c04Sweeps(c)
	// (3) vectors
	c04Vectors(c)
	c.Exhaustive = true
	c.RunHistories(firstUseHistories(c)[:1])
}

func isXMLChar(r rune) bool {
	return r == 0x9 || r == 0xA || r == 0xD || (r >= 0x20 && r <= 0xD7FF) || (r >= 0xE000 && r <= 0xFFFD) || (r >= 0x10000 && r <= 0x10FFFF)
}

func runeClass(r rune) string {
	switch {
	case r < 0x20:
		return "C0-control"
	case r == 0x7F:
		return "DEL"
	case r >= 0x80 && r <= 0x9F:
		return "C1-control"
	case r == '"' || r == '\\' || r == '<' || r == '>' || r == '&' || r == '\'':
		return "markup-or-quote"
	case r < 0x80:
		return "ascii"
	case r < 0x800:
		return "2-byte"
	case r < 0x10000:
		return "3-byte"
	}
	return "4-byte"
}

func c04Sweeps(c *vlib.Check) {
	const T = 0x420094 // UniqueIdentifier, a text string tag
	var runes []rune
	if c.Thorough() {
		for r := rune(0); r <= 0x10FFFF; r++ {
			if r >= 0xD800 && r <= 0xDFFF {
				continue
			}
			runes = append(runes, r)
		}
	} else {
		for r := rune(0); r < 0x800; r++ {
			runes = append(runes, r)
		}
		for _, r := range []rune{0x800, 0xFFF, 0x1000, 0x2028, 0x2029, 0xD7FF, 0xE000, 0xFEFF, 0xFFFD, 0xFFFE, 0xFFFF, 0x10000, 0x1F600, 0xE0001, 0xFFFFF, 0x10FFFF} {
			runes = append(runes, r)
		}
	}
	var n int64
	const block = 4096
	vlib.Parallel((len(runes)+block-1)/block, 0, func(b int) {
		for i := b * block; i < (b+1)*block && i < len(runes); i++ {
			r := runes[i]
			s := string(r)
			if !utf8.ValidString(s) {
				continue
			}
			item := ttlv.Value{Tag: T, Value: s}
			for _, e := range textEncs {
				if e.name == "xml" && !isXMLChar(r) {
					continue // not representable in XML 1.0: outside the property
				}
				c04Value(c, e, "text:"+runeClass(r), fmt.Sprintf("text string U+%04X", r), item, freshValue)
				atomic.AddInt64(&n, 1)
			}
		}
	})
	c.Extra["unicode_scalars_swept"] = len(runes)
	// enumerations
	reg := pinned.Reg()
	var enames []string
	for n := range reg.Enums {
		enames = append(enames, n)
	}
	sort.Strings(enames)
	for _, en := range enames {
		tag := reg.Tags[en]
		vals := []uint32{0, 0x7FFFFFF1, 0xFFFFFFFF}
		for _, v := range reg.Enums[en] {
			vals = append(vals, v)
		}
		for _, v := range vals {
			for _, e := range textEncs {
				c04Value(c, e, "enum", fmt.Sprintf("%s=0x%08X", en, v), ttlv.Value{Tag: tag, Value: ttlv.Enum(v)}, freshValue)
			}
		}
	}
	// masks: through the typed fields so that the by-name forms are used
	maskVals := []int32{0, -1}
	for b := 0; b < 32; b++ {
		maskVals = append(maskVals, int32(uint32(1)<<uint(b)))
		for b2 := b + 1; b2 < 32; b2++ {
			maskVals = append(maskVals, int32(uint32(1)<<uint(b)|uint32(1)<<uint(b2)))
		}
	}
	for _, mv := range maskVals {
		for _, e := range textEncs {
			a := kmip.Attribute{AttributeName: kmip.AttributeNameCryptographicUsageMask, AttributeValue: kmip.CryptographicUsageMask(mv)}
			c04Value(c, e, "mask", fmt.Sprintf("CryptographicUsageMask=0x%08X", uint32(mv)), &a, func() any { return &kmip.Attribute{} })
			type holder struct{ StorageStatusMask kmip.StorageStatusMask }
			_ = holder{}
		}
	}
	for _, mv := range maskVals {
		for _, e := range textEncs {
			m := msg.BaselineRequest(kmip.OperationLocate, kmip.V1_4)
			reflect.ValueOf(m.BatchItem[0].RequestPayload).Elem().FieldByName("StorageStatusMask").SetInt(int64(mv))
			c04Value(c, e, "mask", fmt.Sprintf("StorageStatusMask=0x%08X", uint32(mv)), m, func() any { return &kmip.RequestMessage{} })
		}
	}
	// integers around the JSON thresholds, dates at the ends of the text range
	longs := []int64{0, 1, -1, 1<<52 - 1, 1 << 52, 1<<52 + 1, -(1<<52 - 1), -(1 << 52), -(1<<52 + 1), 1<<53 + 1, 1<<63 - 1, -1 << 63}
	for _, v := range longs {
		for _, e := range textEncs {
			c04Value(c, e, "long", fmt.Sprintf("long integer %d", v), ttlv.Value{Tag: 0x420050, Value: v}, freshValue)
		}
	}
	var bigs []*big.Int
	for _, k := range []uint{7, 8, 15, 16, 52, 53, 63, 64, 65, 127, 128} {
		p := new(big.Int).Lsh(big.NewInt(1), k)
		for _, d := range []int64{-1, 0, 1} {
			x := new(big.Int).Add(p, big.NewInt(d))
			bigs = append(bigs, x, new(big.Int).Neg(x))
		}
	}
	bigs = append(bigs, big.NewInt(0), big.NewInt(1), big.NewInt(-1))
	for _, v := range bigs {
		for _, e := range textEncs {
			c04Value(c, e, "big", "big integer "+v.String(), ttlv.Value{Tag: 0x420052, Value: v}, freshValue)
		}
	}
	for _, s := range []int64{-62135596800, -62135596799, 0, 1, -1, 1 << 31, 253402300799} {
		for _, e := range textEncs {
			c04Value(c, e, "date", fmt.Sprintf("date %d", s), ttlv.Value{Tag: 0x420001, Value: time.Unix(s, 0)}, freshValue)
		}
	}
	// the same instants held in other time zones (the text forms then carry an offset), and documents of another
	// implementation that write an instant with an offset: the binary encoding only knows the instant
	zones := []*time.Location{time.UTC, time.FixedZone("", 2*3600), time.FixedZone("", -(11*3600 + 1800)), time.FixedZone("", 14*3600)}
	for _, s := range []int64{0, 1, -1, 1 << 31, 1700000000, 951782400} {
		for zi, z := range zones {
			t := time.Unix(s, 0).In(z)
			for _, e := range textEncs {
				c04Value(c, e, "date", fmt.Sprintf("date %d held in zone #%d (%s)", s, zi, t.Format(time.RFC3339)), ttlv.Value{Tag: 0x420001, Value: t}, freshValue)
				want := refttlv.Generate(&refttlv.Node{Tag: 0x420001, Type: refttlv.TDateTime, I: s})
				doc := []byte(`<ActivationDate type="DateTime" value="` + t.Format(time.RFC3339) + `"/>`)
				if e.name == "json" {
					doc = []byte(`{"tag":"ActivationDate","type":"DateTime","value":"` + t.Format(time.RFC3339) + `"}`)
				}
				c.Eval(append([]byte(e.name+"foreign"), doc...), true)
				var v ttlv.Value
				var derr error
				var got []byte
				if pv, site := vlib.Catch(func() {
					if derr = e.unmarshal(append([]byte{}, doc...), &v); derr == nil {
						got = ttlv.MarshalTTLV(v)
					}
				}); pv != nil || derr != nil || !bytes.Equal(got, want) {
					c.Violation("date:"+e.name+":foreign-offset-document", fmt.Sprintf("the %s document %s (instant %d) read by the library and written as binary gives %x, expected %x (err %v, panic %v %s)", e.name, doc, s, got, want, derr, pv, site),
						map[string]any{"kind": "document", "encoding": e.name, "document": string(doc)})
				}
			}
		}
	}
	for _, s := range []int64{0, 1, 1 << 31, 1<<32 - 1} {
		for _, e := range textEncs {
			c04Value(c, e, "interval", fmt.Sprintf("interval %d", s), ttlv.Value{Tag: 0x42004A, Value: time.Duration(s) * time.Second}, freshValue)
		}
	}
}

var (
	c04NowRe = regexp.MustCompile(`"\$NOW((\-|\+)\d+)?"`)
	c04VarRe = regexp.MustCompile(`"\$[A-Za-z0-9_]+"`)
)

// c04Vectors: decode each vector message with the library, re-encode to XML, compare trees.
func c04Vectors(c *vlib.Check) {
	root := filepath.Join(repoRoot(), "kmiptest", "testdata")
	files, _ := filepath.Glob(filepath.Join(root, "*", "*.xml"))
	sort.Strings(files)
	var compared, skippedUnimpl, total int64
	vlib.Parallel(len(files), 0, func(fi int) {
		b, err := os.ReadFile(files[fi])
		if err != nil {
			return
		}
		now := time.Unix(1700000000, 0).UTC()
		b = c04NowRe.ReplaceAllFunc(b, func(m []byte) []byte {
			var off int64
			fmt.Sscanf(string(m[5:len(m)-1]), "%d", &off)
			return []byte(`"` + now.Add(time.Duration(off)*time.Second).Format(time.RFC3339) + `"`)
		})
		b = c04VarRe.ReplaceAll(b, []byte(`"DEADBEEFCAFE"`))
		for idx, el := range splitTopLevel(b) {
			atomic.AddInt64(&total, 1)
			label := fmt.Sprintf("%s#%d", strings.TrimPrefix(files[fi], root+"/"), idx)
			t0, err := reftext.XMLToTree(el)
			if err != nil && !vectorImplementedText(el) {
				atomic.AddInt64(&skippedUnimpl, 1) // names of operations / enumerations the library does not define
				continue
			}
			if err != nil {
				c.Violation("vector:unparsable-by-reference:"+ErrClass(err), fmt.Sprintf("%s: the independent parser cannot read the vector: %v", label, err), map[string]any{"kind": "vector", "case": label})
				continue
			}
			var m any
			if name, _ := pinnedTagName(t0.Tag); name == "RequestMessage" {
				m = &kmip.RequestMessage{}
			} else if name == "ResponseMessage" {
				m = &kmip.ResponseMessage{}
			} else {
				continue
			}
			rep := map[string]any{"kind": "vector", "case": label, "vector": short(string(el), 3000)}
			var derr error
			if pv, site := vlib.Catch(func() { derr = ttlv.UnmarshalXML(append([]byte{}, el...), m) }); pv != nil {
				c.Violation("vector:decode-panic:"+site, fmt.Sprintf("%s: decoding the vector panicked: %v", label, pv), rep)
				continue
			}
			if derr != nil {
				if !vectorImplemented(t0) {
					atomic.AddInt64(&skippedUnimpl, 1)
					continue
				}
				c.Violation("vector:decode-error:"+ErrClass(derr), fmt.Sprintf("%s: a conformant vector of implemented operations is rejected: %v", label, derr), rep)
				continue
			}
			if hasUnknownPayload(m) || !vectorImplemented(t0) {
				atomic.AddInt64(&skippedUnimpl, 1)
				continue
			}
			var doc []byte
			if pv, site := vlib.Catch(func() { doc = ttlv.MarshalXML(m) }); pv != nil {
				c.Violation("vector:encode-panic:"+site, fmt.Sprintf("%s: %v", label, pv), rep)
				continue
			}
			c.Eval(doc, true)
			t1, err := reftext.XMLToTree(doc)
			if err != nil {
				c.Violation("vector:reencoded-not-wellformed:"+ErrClass(err), fmt.Sprintf("%s: %v", label, err), rep)
				continue
			}
			atomic.AddInt64(&compared, 1)
			if cls, path := msg.Diff(t1, t0); cls != "" {
				rep["reencoded"] = short(string(doc), 3000)
				c.Violation("vector:reencoding-differs:"+cls+":"+lastSeg(path), fmt.Sprintf("%s: decoding the vector and encoding it again gives %s at %s", label, cls, path), rep)
			}
		}
	})
	c.Extra["oasis_vectors"] = map[string]any{"files": len(files), "messages": total, "compared": compared, "skipped_unimplemented_operation": skippedUnimpl}
}

func pinnedTagName(t uint32) (string, bool) {
	n := msg.TagName(t)
	return n, !strings.HasPrefix(n, "0x")
}

func hasUnknownPayload(m any) bool {
	switch x := m.(type) {
	case *kmip.RequestMessage:
		for _, bi := range x.BatchItem {
			if _, ok := bi.RequestPayload.(*kmip.UnknownPayload); ok {
				return true
			}
		}
	case *kmip.ResponseMessage:
		for _, bi := range x.BatchItem {
			if _, ok := bi.ResponsePayload.(*kmip.UnknownPayload); ok {
				return true
			}
		}
	}
	return false
}

// vectorImplemented: every batch item names an operation with registered payload types (computed from the
// harness' own table of the 27 implemented operations).
func vectorImplemented(t *refttlv.Node) bool {
	opTag := uint32(pinned.Reg().Tags["Operation"])
	biTag := uint32(pinned.Reg().Tags["BatchItem"])
	for _, k := range t.Kids {
		if k.Tag != biTag {
			continue
		}
		for _, f := range k.Kids {
			if f.Tag == opTag {
				if _, ok := msg.PayloadTypes[kmip.Operation(f.I)]; !ok {
					return false
				}
			}
		}
	}
	return true
}

var reOpName = regexp.MustCompile(`<Operation type="Enumeration" value="([^"]*)"`)

// vectorImplementedText: same as vectorImplemented, on the raw text (used when the vector cannot be parsed).
func vectorImplementedText(el []byte) bool {
	for _, m := range reOpName.FindAllSubmatch(el, -1) {
		v, ok := pinned.Reg().Enums["Operation"][string(m[1])]
		if !ok {
			return false
		}
		if _, ok := msg.PayloadTypes[kmip.Operation(v)]; !ok {
			return false
		}
	}
	return true
}

// splitTopLevel returns the RequestMessage / ResponseMessage elements of a vector file (children of <KMIP>).
func splitTopLevel(b []byte) [][]byte {
	var out [][]byte
	s := string(b)
	for {
		i1 := strings.Index(s, "<RequestMessage>")
		i2 := strings.Index(s, "<ResponseMessage>")
		i, end := i1, "</RequestMessage>"
		if i1 < 0 || (i2 >= 0 && i2 < i1) {
			i, end = i2, "</ResponseMessage>"
		}
		if i < 0 {
			return out
		}
		j := strings.Index(s[i:], end)
		if j < 0 {
			return out
		}
		out = append(out, []byte(s[i:i+j+len(end)]))
		s = s[i+j+len(end):]
	}
}
