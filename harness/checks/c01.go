package checks

import (
	"bytes"
	"encoding/hex"
	"fmt"
	"reflect"
	"strings"

	"github.com/ovh/kmip-go"
	"github.com/ovh/kmip-go/ttlv"
	"verifharness/msg"
	"verifharness/refttlv"
	"verifharness/vlib"
)

func init() { All["C01"] = Spec{"exploration", runC01} }

func opDir(c msg.Case) string {
	f := strings.Fields(c.Name)
	if len(f) >= 2 {
		return f[0] + " " + f[1]
	}
	return c.Name
}

func payloadTypes(m any) []string {
	var out []string
	switch x := m.(type) {
	case *kmip.RequestMessage:
		for _, bi := range x.BatchItem {
			out = append(out, fmt.Sprintf("%T", bi.RequestPayload))
		}
	case *kmip.ResponseMessage:
		for _, bi := range x.BatchItem {
			out = append(out, fmt.Sprintf("%T", bi.ResponsePayload))
		}
	}
	return out
}

// c01Eval applies the round-trip oracle to one message. Returns the binary encoding (nil if it could not be produced).
func c01Eval(c *vlib.Check, k msg.Case) []byte {
	ver := [2]int{int(k.Ver.ProtocolVersionMajor), int(k.Ver.ProtocolVersionMinor)}
	rep := func(extra map[string]any) map[string]any {
		r := map[string]any{"kind": "message", "case": k.Name}
		for a, b := range extra {
			r[a] = b
		}
		return r
	}
	var enc []byte
	if pv, site := vlib.Catch(func() { enc = append([]byte{}, ttlv.MarshalTTLV(k.Msg)...) }); pv != nil {
		c.Violation("encode-panic:"+site, fmt.Sprintf("MarshalTTLV panicked (%v) on %s", pv, k.Name), rep(nil))
		return nil
	}
	c.Eval(enc, k.Dev > 0)
	proj := &msg.Projector{Ver: ver, Gate: true}
	want, err := proj.Project(k.Msg)
	if err != nil {
		fmt.Println("MACHINERY: projection failed:", err, k.Name)
		c.Violation("machinery:projection", err.Error(), rep(nil))
		return enc
	}
	tree, err := refttlv.ParseStrict(enc)
	if err != nil {
		c.Violation("encoding-not-wellformed:"+ErrClass(err), fmt.Sprintf("independent parser rejects the encoding of %s: %v", k.Name, err), rep(map[string]any{"hex": hex.EncodeToString(enc)}))
		return enc
	}
	if cls, path := msg.Diff(tree, want); cls != "" {
		c.Violation("encoding-vs-populated-elements:"+cls+":"+path, fmt.Sprintf("the encoding of %s does not carry exactly the populated elements: %s at %s", k.Name, cls, path),
			rep(map[string]any{"hex": hex.EncodeToString(enc), "expected_tree": want.String()}))
		return enc
	}
	// decode into a fresh value of the same root type
	fresh := reflect.New(reflect.TypeOf(k.Msg).Elem()).Interface()
	buf := append([]byte{}, enc...)
	var derr error
	if pv, site := vlib.Catch(func() { derr = ttlv.UnmarshalTTLV(buf, fresh) }); pv != nil {
		c.Violation("decode-panic:"+site, fmt.Sprintf("UnmarshalTTLV panicked (%v) on the encoding of %s", pv, k.Name), rep(map[string]any{"hex": hex.EncodeToString(enc)}))
		return enc
	}
	if derr != nil {
		c.Violation("decode-error:"+opDir(k)+":"+ErrClass(derr), fmt.Sprintf("decoding the library's own encoding of %s fails: %v", k.Name, derr), rep(map[string]any{"hex": hex.EncodeToString(enc)}))
		return enc
	}
	if a, b := payloadTypes(k.Msg), payloadTypes(fresh); strings.Join(a, ",") != strings.Join(b, ",") {
		c.Violation("payload-type-changed:"+opDir(k), fmt.Sprintf("%s: payload types %v decode as %v", k.Name, a, b), rep(nil))
		return enc
	}
	got, err := proj.Project(fresh)
	if err != nil {
		c.Violation("decoded-value-unprojectable:"+opDir(k), fmt.Sprintf("%s: decoded value cannot be projected: %v", k.Name, err), rep(map[string]any{"hex": hex.EncodeToString(enc)}))
		return enc
	}
	if cls, path := msg.Diff(got, want); cls != "" {
		c.Violation("decoded-content-differs:"+cls+":"+path, fmt.Sprintf("decoding %s yields different content: %s at %s", k.Name, cls, path), rep(map[string]any{"hex": hex.EncodeToString(enc)}))
		return enc
	}
	// same wire content, but is it held by the same Go members? (several members of one structure can stand for one wire
	// element, e.g. the alternatives of Key Material: a value decoded into another member than the one that was populated
	// encodes to the same bytes and is still not the same content for the program reading it)
	if where := memberSwap(reflect.ValueOf(k.Msg), reflect.ValueOf(fresh), ""); where != "" {
		c.Violation("decoded-into-another-member:"+opDir(k)+":"+where, fmt.Sprintf("decoding %s populates other Go members than the original: %s", k.Name, where), rep(map[string]any{"hex": hex.EncodeToString(enc)}))
		return enc
	}
	var enc2 []byte
	if pv, site := vlib.Catch(func() { enc2 = ttlv.MarshalTTLV(fresh) }); pv != nil {
		c.Violation("reencode-panic:"+site, fmt.Sprintf("re-encoding the decoded %s panicked: %v", k.Name, pv), rep(nil))
		return enc
	}
	if !bytes.Equal(enc, enc2) {
		c.Violation("reencode-differs:"+opDir(k), fmt.Sprintf("re-encoding the decoded %s gives different bytes", k.Name), rep(map[string]any{"hex": hex.EncodeToString(enc), "hex2": hex.EncodeToString(enc2)}))
	}
	return enc
}

type c01job struct {
	op   kmip.Operation
	resp bool
}

func runC01(c *vlib.Check) {
	k := 1
	if c.Thorough() {
		k = 2
	}
	c.Rule = fmt.Sprintf("for each of the 27 operations x {request, response}: the rich baseline message (every field populated) and every message with <=%d site(s) deviating from it "+
		"(k=2: pairs of related sites), sites = every scalar field x its boundary alphabet, every pointer nil/populated, every list 0/1/2 elements, every attribute slot x 50 standard + custom attributes, "+
		"every key block slot x 13 key formats + wrapped + metadata-only, every object slot x 9 object types, credentials x 3 kinds; plus multi-item batches, unknown operations and failed/pending items; "+
		"x protocol versions 1.0..1.4. The enumeration is repeated in a fresh child process that first uses every message type at version 1.4 (thorough: also 1.3), since the codec builds its per-type plans at first use. "+
		"distinct = distinct encodings of deviating messages", k)
	c.Assumptions = []string{"'carries exactly the populated elements' is judged by an independent reflective projection (msg.Projector) using the pinned tag registry and the pinned version table",
		"equality of content is compared on the projected element trees (instants as seconds, big integers by value, generic attribute values by their TTLV content), and on which nillable Go members of each structure hold it (a member populated on one side only together with another populated on the other side only is a difference)",
		"a failed response item without Result Reason is not a well-formed message (Result Reason is required for failures)"}
	var jobs []c01job
	for _, op := range msg.Operations() {
		jobs = append(jobs, c01job{op, false}, c01job{op, true})
	}
	warmFirstUse(jobs)
	vlib.Parallel(len(jobs), 0, func(i int) {
		n := 0
		msg.Enumerate(jobs[i].op, jobs[i].resp, k, func(cs msg.Case) {
			enc := c01Eval(c, cs)
			n++
			if n == 7 && i < 3 && enc != nil {
				c.Sample(map[string]any{"case": cs.Name, "hex": hex.EncodeToString(enc)})
			}
		})
	})
	msg.ExtraCases(func(cs msg.Case) { c01Eval(c, cs) })
	c.Exhaustive = true
	c.RunHistories(firstUseHistories(c)[:1+len(firstUseHistories(c))/3])
}

// memberSwap walks the original a and the decoded b in parallel and reports the first structure in which a nillable member
// is populated in a and not in b while another one is populated in b and not in a (members that are merely missing on one
// side are the business of the content comparison: version gating removes members legitimately).
func memberSwap(a, b reflect.Value, path string) string {
	if !a.IsValid() || !b.IsValid() || a.Type() != b.Type() {
		return ""
	}
	switch a.Kind() {
	case reflect.Pointer, reflect.Interface:
		if a.IsNil() || b.IsNil() {
			return ""
		}
		return memberSwap(a.Elem(), b.Elem(), path)
	case reflect.Slice, reflect.Array:
		if a.Len() != b.Len() || a.Type().Elem().Kind() == reflect.Uint8 {
			return ""
		}
		for i := 0; i < a.Len(); i++ {
			if w := memberSwap(a.Index(i), b.Index(i), fmt.Sprintf("%s[%d]", path, i)); w != "" {
				return w
			}
		}
	case reflect.Struct:
		if a.Type().PkgPath() == "time" || a.Type().PkgPath() == "math/big" {
			return ""
		}
		var onlyA, onlyB []string
		for i := 0; i < a.NumField(); i++ {
			f := a.Type().Field(i)
			if !f.IsExported() {
				continue
			}
			fa, fb := a.Field(i), b.Field(i)
			switch fa.Kind() {
			case reflect.Pointer, reflect.Interface, reflect.Map:
				if !fa.IsNil() && fb.IsNil() {
					onlyA = append(onlyA, f.Name)
				}
				if fa.IsNil() && !fb.IsNil() {
					onlyB = append(onlyB, f.Name)
				}
			}
		}
		if len(onlyA) > 0 && len(onlyB) > 0 {
			return fmt.Sprintf("%s.{%s -> %s}", path, strings.Join(onlyA, ","), strings.Join(onlyB, ","))
		}
		for i := 0; i < a.NumField(); i++ {
			if !a.Type().Field(i).IsExported() {
				continue
			}
			if w := memberSwap(a.Field(i), b.Field(i), path+"."+a.Type().Field(i).Name); w != "" {
				return w
			}
		}
	}
	return ""
}
