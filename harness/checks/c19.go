package checks

import (
	"context"
	"errors"
	"fmt"
	"net"
	"strings"
	"sync"

	"github.com/ovh/kmip-go"
	"github.com/ovh/kmip-go/kmipclient"
	"github.com/ovh/kmip-go/kmipserver"
	"github.com/ovh/kmip-go/payloads"
	"github.com/ovh/kmip-go/ttlv"
	"verifharness/vlib"
)

func init() { All["C19"] = Spec{"model_checking", runC19} }

// stage behaviours
const (
	bPass = iota
	bShort
	bTwice
	bThrice
	bReplMsg
	bReplCtx
	bFailBefore
	bFailAfter
	bFirstOfTwo // call next twice and answer with the FIRST result (a hedged / shadow execution): it is read after the second call
	nBehaviours
)

var bNames = []string{"pass", "short-circuit", "call-twice", "call-thrice", "replace-message", "replace-context", "fail-before", "fail-after", "first-of-two"}

type ctxMark struct{}

func markOf(ctx context.Context) string { s, _ := ctx.Value(ctxMark{}).(string); return s }

type tracer struct {
	mu sync.Mutex
	ev []string
	n  int // executions of the core so far: every execution answers differently ("r:<id>#<n>")
}

func (t *tracer) exec() int {
	t.mu.Lock()
	defer t.mu.Unlock()
	t.n++
	return t.n
}

func (t *tracer) log(format string, a ...any) {
	t.mu.Lock()
	t.ev = append(t.ev, fmt.Sprintf(format, a...))
	t.mu.Unlock()
}

// ---- reference interpreter: run(i,ctx,msg) = stage_i(λ(c,m).run(i+1,c,m)); run(n) = core ----
// results and errors are identified by strings; a failing result is "E<i>".
func refRun(chain []int, i int, ctx, msg string, tr *[]string, core func(ctx, msg string) string) string {
	if i == len(chain) {
		return core(ctx, msg)
	}
	*tr = append(*tr, fmt.Sprintf("S%d>(%s,%s)", i, ctx, msg))
	next := func(c, m string) string { return refRun(chain, i+1, c, m, tr, core) }
	var r string
	switch chain[i] {
	case bPass:
		r = next(ctx, msg)
	case bShort:
		r = fmt.Sprintf("short%d", i)
	case bTwice:
		next(ctx, msg)
		r = next(ctx, msg)
	case bThrice:
		next(ctx, msg)
		next(ctx, msg)
		r = next(ctx, msg)
	case bReplMsg:
		r = next(ctx, msg+fmt.Sprintf("'%d", i))
	case bReplCtx:
		r = next(ctx+fmt.Sprintf("c%d", i), msg)
	case bFailBefore:
		r = fmt.Sprintf("E%d", i)
	case bFailAfter:
		next(ctx, msg)
		r = fmt.Sprintf("E%d", i)
	case bFirstOfTwo:
		r = next(ctx, msg)
		next(ctx, msg)
	}
	*tr = append(*tr, fmt.Sprintf("S%d<%s", i, r))
	return r
}

func chainName(chain []int) string {
	var s []string
	for _, b := range chain {
		s = append(s, bNames[b])
	}
	return "[" + strings.Join(s, " ") + "]"
}

func chains(maxLen int) [][]int {
	var out [][]int
	var gen func(cur []int)
	gen = func(cur []int) {
		out = append(out, append([]int{}, cur...))
		if len(cur) == maxLen {
			return
		}
		for b := 0; b < nBehaviours; b++ {
			gen(append(cur, b))
		}
	}
	gen(nil)
	return out
}

// ---------- server message chain ----------

func reqID(m *kmip.RequestMessage) string {
	if m == nil || len(m.BatchItem) == 0 {
		return "?"
	}
	if p, ok := m.BatchItem[0].RequestPayload.(*payloads.ActivateRequestPayload); ok {
		return p.UniqueIdentifier
	}
	return "?"
}
func respID(m *kmip.ResponseMessage, err error) string {
	if err != nil {
		return err.Error()
	}
	if m == nil || len(m.BatchItem) == 0 {
		return "nil"
	}
	bi := m.BatchItem[0]
	if bi.ResultStatus != kmip.ResultStatusSuccess {
		return bi.ResultMessage
	}
	if p, ok := bi.ResponsePayload.(*payloads.ActivateResponsePayload); ok {
		return p.UniqueIdentifier
	}
	return "?"
}
func mkReq(id string) *kmip.RequestMessage {
	m := kmip.NewRequestMessage(kmip.V1_4, &payloads.ActivateRequestPayload{UniqueIdentifier: id})
	return &m
}
func mkResp(id string) *kmip.ResponseMessage {
	return &kmip.ResponseMessage{Header: kmip.ResponseHeader{ProtocolVersion: kmip.V1_4, BatchCount: 1},
		BatchItem: []kmip.ResponseBatchItem{{Operation: kmip.OperationActivate, ResponsePayload: &payloads.ActivateResponsePayload{UniqueIdentifier: id}}}}
}

func serverMsgStage(tr *tracer, i, b int) kmipserver.Middleware {
	return func(next kmipserver.Next, ctx context.Context, msg *kmip.RequestMessage) (*kmip.ResponseMessage, error) {
		tr.log("S%d>(%s,%s)", i, markOf(ctx), reqID(msg))
		var r *kmip.ResponseMessage
		var err error
		switch b {
		case bPass:
			r, err = next(ctx, msg)
		case bShort:
			r = mkResp(fmt.Sprintf("short%d", i))
		case bTwice:
			_, _ = next(ctx, msg)
			r, err = next(ctx, msg)
		case bThrice:
			_, _ = next(ctx, msg)
			_, _ = next(ctx, msg)
			r, err = next(ctx, msg)
		case bReplMsg:
			// the substituted message differs from the original in its header too (another version, a correlation value,
			// the Stop option): the core handler must work from the message it is handed, header included
			nm := mkReq(reqID(msg) + fmt.Sprintf("'%d", i))
			nm.Header.ProtocolVersion = kmip.V1_2
			nm.Header.ClientCorrelationValue = fmt.Sprintf("corr%d", i)
			nm.Header.BatchErrorContinuationOption = kmip.BatchErrorContinuationOptionStop
			r, err = next(ctx, nm)
			if err == nil && r != nil && strings.HasPrefix(respID(r, nil), "r:") && r.Header.ProtocolVersion != kmip.V1_2 { // a response built by the core handler
				tr.log("S%d!response-header-version=%d.%d", i, r.Header.ProtocolVersion.ProtocolVersionMajor, r.Header.ProtocolVersion.ProtocolVersionMinor)
			}
		case bReplCtx:
			r, err = next(context.WithValue(ctx, ctxMark{}, markOf(ctx)+fmt.Sprintf("c%d", i)), msg)
		case bFailBefore:
			r, err = nil, errors.New(fmt.Sprintf("E%d", i))
		case bFailAfter:
			_, _ = next(ctx, msg)
			r, err = nil, errors.New(fmt.Sprintf("E%d", i))
		case bFirstOfTwo:
			r, err = next(ctx, msg)
			_, _ = next(ctx, msg)
		}
		tr.log("S%d<%s", i, respID(r, err))
		return r, err
	}
}

func runServerMsgChain(chain []int) (trace []string, result string) {
	tr := &tracer{}
	exec := kmipserver.NewBatchExecutor()
	exec.Route(kmip.OperationActivate, kmipserver.HandleFunc(func(ctx context.Context, req *payloads.ActivateRequestPayload) (*payloads.ActivateResponsePayload, error) {
		tr.log("H(%s,%s)", markOf(ctx), req.UniqueIdentifier)
		return &payloads.ActivateResponsePayload{UniqueIdentifier: fmt.Sprintf("r:%s#%d", req.UniqueIdentifier, tr.exec())}, nil
	}))
	for i, b := range chain {
		exec.Use(serverMsgStage(tr, i, b))
	}
	// two requests one after the other through the same executor: the chain must behave the same for the second
	resp := exec.HandleRequest(context.WithValue(context.Background(), ctxMark{}, "k"), mkReq("m"))
	resp2 := exec.HandleRequest(context.WithValue(context.Background(), ctxMark{}, "k"), mkReq("n"))
	return tr.ev, respID(resp, nil) + "|" + respID(resp2, nil)
}

// ---------- server batch-item chain ----------

func biID(bi *kmip.RequestBatchItem) string {
	if p, ok := bi.RequestPayload.(*payloads.ActivateRequestPayload); ok {
		return p.UniqueIdentifier
	}
	return "?"
}
func biRespID(bi *kmip.ResponseBatchItem, err error) string {
	if err != nil {
		return err.Error()
	}
	if bi == nil {
		return "nil"
	}
	if bi.ResultStatus != kmip.ResultStatusSuccess {
		return bi.ResultMessage
	}
	if p, ok := bi.ResponsePayload.(*payloads.ActivateResponsePayload); ok {
		return p.UniqueIdentifier
	}
	return "?"
}

func serverItemStage(tr *tracer, i, b int) kmipserver.BatchItemMiddleware {
	return func(next kmipserver.BatchItemNext, ctx context.Context, bi *kmip.RequestBatchItem) (*kmip.ResponseBatchItem, error) {
		tr.log("S%d>(%s,%s)", i, markOf(ctx), biID(bi))
		var r *kmip.ResponseBatchItem
		var err error
		switch b {
		case bPass:
			r, err = next(ctx, bi)
		case bShort:
			r = &kmip.ResponseBatchItem{Operation: bi.Operation, ResponsePayload: &payloads.ActivateResponsePayload{UniqueIdentifier: fmt.Sprintf("short%d", i)}}
		case bTwice:
			_, _ = next(ctx, bi)
			r, err = next(ctx, bi)
		case bThrice:
			_, _ = next(ctx, bi)
			_, _ = next(ctx, bi)
			r, err = next(ctx, bi)
		case bReplMsg:
			nb := *bi
			nb.RequestPayload = &payloads.ActivateRequestPayload{UniqueIdentifier: biID(bi) + fmt.Sprintf("'%d", i)}
			r, err = next(ctx, &nb)
		case bReplCtx:
			r, err = next(context.WithValue(ctx, ctxMark{}, markOf(ctx)+fmt.Sprintf("c%d", i)), bi)
		case bFailBefore:
			// failing stages return a non-nil item (what the outermost caller does with (nil, err) is not part of the property)
			r, err = &kmip.ResponseBatchItem{Operation: bi.Operation}, errors.New(fmt.Sprintf("E%d", i))
		case bFailAfter:
			_, _ = next(ctx, bi)
			r, err = &kmip.ResponseBatchItem{Operation: bi.Operation}, errors.New(fmt.Sprintf("E%d", i))
		case bFirstOfTwo:
			r, err = next(ctx, bi)
			_, _ = next(ctx, bi)
		}
		tr.log("S%d<%s", i, biRespID(r, err))
		return r, err
	}
}

func runServerItemChain(chain []int) (trace []string, result string) {
	tr := &tracer{}
	exec := kmipserver.NewBatchExecutor()
	exec.Route(kmip.OperationActivate, kmipserver.HandleFunc(func(ctx context.Context, req *payloads.ActivateRequestPayload) (*payloads.ActivateResponsePayload, error) {
		tr.log("H(%s,%s)", markOf(ctx), req.UniqueIdentifier)
		return &payloads.ActivateResponsePayload{UniqueIdentifier: fmt.Sprintf("r:%s#%d", req.UniqueIdentifier, tr.exec())}, nil
	}))
	for i, b := range chain {
		exec.BatchItemUse(serverItemStage(tr, i, b))
	}
	resp := exec.HandleRequest(context.WithValue(context.Background(), ctxMark{}, "k"), mkReq("m"))
	resp2 := exec.HandleRequest(context.WithValue(context.Background(), ctxMark{}, "k"), mkReq("n"))
	return tr.ev, respID(resp, nil) + "|" + respID(resp2, nil)
}

// ---------- client chain ----------

func clientStage(tr *tracer, i, b int) kmipclient.Middleware {
	return func(next kmipclient.Next, ctx context.Context, msg *kmip.RequestMessage) (*kmip.ResponseMessage, error) {
		tr.log("S%d>(%s,%s)", i, markOf(ctx), reqID(msg))
		var r *kmip.ResponseMessage
		var err error
		switch b {
		case bPass:
			r, err = next(ctx, msg)
		case bShort:
			r = mkResp(fmt.Sprintf("short%d", i))
		case bTwice:
			_, _ = next(ctx, msg)
			r, err = next(ctx, msg)
		case bThrice:
			_, _ = next(ctx, msg)
			_, _ = next(ctx, msg)
			r, err = next(ctx, msg)
		case bReplMsg:
			r, err = next(ctx, mkReq(reqID(msg)+fmt.Sprintf("'%d", i)))
		case bReplCtx:
			r, err = next(context.WithValue(ctx, ctxMark{}, markOf(ctx)+fmt.Sprintf("c%d", i)), msg)
		case bFailBefore:
			r, err = nil, errors.New(fmt.Sprintf("E%d", i))
		case bFailAfter:
			_, _ = next(ctx, msg)
			r, err = nil, errors.New(fmt.Sprintf("E%d", i))
		case bFirstOfTwo:
			r, err = next(ctx, msg)
			_, _ = next(ctx, msg)
		}
		tr.log("S%d<%s", i, respID(r, err))
		return r, err
	}
}

func runClientChain(chain []int) (trace []string, result string, err error) {
	tr := &tracer{}
	var mws []kmipclient.Middleware
	for i, b := range chain {
		mws = append(mws, clientStage(tr, i, b))
	}
	srvDone := make(chan struct{})
	dialer := func(ctx context.Context) (net.Conn, error) {
		a, b := net.Pipe()
		go func() {
			defer close(srvDone)
			st := ttlv.NewStream(b, 0)
			for {
				var req kmip.RequestMessage
				if err := st.Recv(&req); err != nil {
					_ = b.Close()
					return
				}
				// the transport is the innermost stage: the context is not visible on the wire
				tr.log("H(-,%s)", reqID(&req))
				_ = st.Send(mkResp(fmt.Sprintf("r:%s#%d", reqID(&req), tr.exec())))
			}
		}()
		return a, nil
	}
	cl, derr := kmipclient.DialContext(context.Background(), "pipe", kmipclient.WithDialerUnsafe(dialer), kmipclient.EnforceVersion(kmip.V1_4), kmipclient.WithMiddlewares(mws...))
	if derr != nil {
		return nil, "", derr
	}
	resp, rerr := cl.Roundtrip(context.WithValue(context.Background(), ctxMark{}, "k"), mkReq("m"))
	resp2, rerr2 := cl.Roundtrip(context.WithValue(context.Background(), ctxMark{}, "k"), mkReq("n"))
	_ = cl.Close()
	<-srvDone
	return tr.ev, respID(resp, rerr) + "|" + respID(resp2, rerr2), nil
}

func runC19(c *vlib.Check) {
	maxLen := 4
	if c.Thorough() {
		maxLen = 5
	}
	c.Rule = fmt.Sprintf("explicit-state enumeration of middleware programs: every chain of length 0..%d over stage behaviours {pass, short-circuit, call next twice, call next three times, call next twice and answer with the first result (every execution of the core answers differently), replace the message, "+
		"replace the context, fail before next, fail after next} for the client chain, the server message chain and the server batch-item chain, run on the real code; the recorded trace of "+
		"(stage entry with context marker and message identity, core invocation, stage return with result identity) is compared with a recursive reference interpreter; "+
		"registration histories: stages handed over in two registration calls from one caller-owned slice with spare capacity, two clients / executors built one after the other from it with different tails, each must run exactly its own stages in order; "+
		"states = programs, transitions = trace events compared", maxLen)
	c.Assumptions = []string{"a failing batch-item stage returns a non-nil item (the property does not say what the outermost caller does with (nil, err))",
		"the client transport cannot observe the context: context markers are compared at stages only for the client chain"}
	all := chains(maxLen)
	type kind struct {
		name string
		run  func(chain []int) ([]string, string, error)
		core func(ctx, msg string) string
	}
	var trmu sync.Mutex
	_ = trmu
	kinds := []kind{
		{"server-message", func(ch []int) ([]string, string, error) { t, r := runServerMsgChain(ch); return t, r, nil }, nil},
		{"server-batch-item", func(ch []int) ([]string, string, error) { t, r := runServerItemChain(ch); return t, r, nil }, nil},
		{"client", runClientChain, nil},
	}
	for _, k := range kinds {
		k := k
		vlib.Parallel(len(all), 0, func(i int) {
			chain := all[i]
			var want []string
			execs := 0
			hideCtx := k.name == "client"
			core := func(ctx, msg string) string {
				if hideCtx {
					ctx = "-"
				}
				want = append(want, fmt.Sprintf("H(%s,%s)", ctx, msg))
				execs++
				return fmt.Sprintf("r:%s#%d", msg, execs)
			}
			res := refRun(chain, 0, "k", "m", &want, core)
			res += "|" + refRun(chain, 0, "k", "n", &want, core)
			name := k.name + " " + chainName(chain)
			c.Eval([]byte(name), len(chain) > 0)
			if i%301 == 0 {
				c.Sample(map[string]any{"chain": name, "reference_trace": want})
			}
			rep := map[string]any{"kind": "chain", "chain_kind": k.name, "stages": chainName(chain), "expected_trace": want}
			var got []string
			var gres string
			var rerr error
			if pv, site := vlib.Catch(func() { got, gres, rerr = k.run(chain) }); pv != nil {
				c.Violation("panic:"+k.name+":"+site, fmt.Sprintf("%s panicked: %v", name, pv), rep)
				return
			}
			if rerr != nil {
				c.Violation("setup:"+k.name, fmt.Sprintf("%s: %v", name, rerr), rep)
				return
			}
			c.Mu(func() { c.Transitions += int64(len(want)); c.States++; c.Traces++ })
			rep["observed_trace"] = got
			if strings.Join(got, " ") != strings.Join(want, " ") {
				c.Violation(c19Sig(k.name, chain, got, want), fmt.Sprintf("%s: trace %v, reference %v", name, got, want), rep)
				return
			}
			if gres != res {
				c.Violation("result:"+k.name, fmt.Sprintf("%s: outermost result %q, reference %q", name, gres, res), rep)
			}
		})
	}
	c19Registration(c)
	c.Exhaustive = true
}

// c19Registration: registration histories. The stages of a chain are handed over in two registration calls (two
// WithMiddlewares options / two Use or BatchItemUse calls) from one caller-owned slice with spare capacity, and a second
// client / executor is then built from the same slice with a different tail. Each instance must run exactly the stages
// registered on it, in registration order, whatever was built afterwards.
func c19Registration(c *vlib.Check) {
	type inst struct {
		name string
		run  func() ([]string, error)
	}
	stageNames := func(pfx string, n int) []string {
		var r []string
		for i := 0; i < n; i++ {
			r = append(r, fmt.Sprintf("%s%d", pfx, i))
		}
		return r
	}
	n := 0
	for baseLen := 0; baseLen <= 3; baseLen++ {
		for tailLen := 1; tailLen <= 2; tailLen++ {
			for _, kind := range []string{"client", "server-message", "server-batch-item"} {
				label := fmt.Sprintf("%s chain: %d shared stage(s) from a slice with spare capacity + %d own stage(s), two instances built one after the other", kind, baseLen, tailLen)
				c.Eval([]byte("registration "+label), true)
				n++
				rep := map[string]any{"kind": "registration-history", "case": label}
				var traces [2]*tracer
				var insts []inst
				wantOf := func(which string) string {
					return strings.Join(append(stageNames("base", baseLen), stageNames("own"+which+"-", tailLen)...), " ")
				}
				pv, site := vlib.Catch(func() {
					switch kind {
					case "client":
						mk := func(tr **tracer, id string) kmipclient.Middleware {
							return func(next kmipclient.Next, ctx context.Context, msg *kmip.RequestMessage) (*kmip.ResponseMessage, error) {
								(*tr).log("%s", id)
								return next(ctx, msg)
							}
						}
						var cur *tracer
						base := make([]kmipclient.Middleware, 0, 8)
						for _, id := range stageNames("base", baseLen) {
							base = append(base, mk(&cur, id))
						}
						for wi, which := range []string{"A", "B"} {
							wi := wi
							traces[wi] = &tracer{}
							var tail []kmipclient.Middleware
							for _, id := range stageNames("own"+which+"-", tailLen) {
								tail = append(tail, mk(&cur, id))
							}
							stub := func(next kmipclient.Next, ctx context.Context, msg *kmip.RequestMessage) (*kmip.ResponseMessage, error) {
								return mkResp("r"), nil
							}
							dialer := func(ctx context.Context) (net.Conn, error) { a, _ := net.Pipe(); return a, nil }
							cl, err := kmipclient.DialContext(context.Background(), "pipe", kmipclient.WithDialerUnsafe(dialer), kmipclient.EnforceVersion(kmip.V1_4),
								kmipclient.WithMiddlewares(base...), kmipclient.WithMiddlewares(tail...), kmipclient.WithMiddlewares(stub))
							if err != nil {
								panic(err)
							}
							insts = append(insts, inst{which, func() ([]string, error) {
								cur = traces[wi]
								_, err := cl.Roundtrip(context.Background(), mkReq("m"))
								_ = cl.Close()
								return traces[wi].ev, err
							}})
						}
					default:
						var cur *tracer
						for wi, which := range []string{"A", "B"} {
							wi := wi
							traces[wi] = &tracer{}
							exec := kmipserver.NewBatchExecutor()
							exec.Route(kmip.OperationActivate, kmipserver.HandleFunc(func(ctx context.Context, req *payloads.ActivateRequestPayload) (*payloads.ActivateResponsePayload, error) {
								return &payloads.ActivateResponsePayload{UniqueIdentifier: req.UniqueIdentifier}, nil
							}))
							ids := append(stageNames("base", baseLen), stageNames("own"+which+"-", tailLen)...)
							if kind == "server-message" {
								all := make([]kmipserver.Middleware, 0, 8)
								for _, id := range ids {
									id := id
									all = append(all, func(next kmipserver.Next, ctx context.Context, msg *kmip.RequestMessage) (*kmip.ResponseMessage, error) {
										cur.log("%s", id)
										return next(ctx, msg)
									})
								}
								exec.Use(all[:baseLen]...)
								exec.Use(all[baseLen:]...)
							} else {
								all := make([]kmipserver.BatchItemMiddleware, 0, 8)
								for _, id := range ids {
									id := id
									all = append(all, func(next kmipserver.BatchItemNext, ctx context.Context, bi *kmip.RequestBatchItem) (*kmip.ResponseBatchItem, error) {
										cur.log("%s", id)
										return next(ctx, bi)
									})
								}
								exec.BatchItemUse(all[:baseLen]...)
								exec.BatchItemUse(all[baseLen:]...)
							}
							insts = append(insts, inst{which, func() ([]string, error) {
								cur = traces[wi]
								exec.HandleRequest(context.Background(), mkReq("m"))
								return traces[wi].ev, nil
							}})
						}
					}
				})
				if pv != nil {
					c.Violation("panic:registration:"+kind+":"+site, fmt.Sprintf("%s: %v", label, pv), rep)
					continue
				}
				for _, in := range insts {
					var got []string
					var err error
					if pv, site := vlib.Catch(func() { got, err = in.run() }); pv != nil {
						c.Violation("panic:registration:"+kind+":"+site, fmt.Sprintf("%s: %v", label, pv), rep)
						continue
					}
					c.Mu(func() { c.Transitions += int64(len(got)); c.States++; c.Traces++ })
					if err != nil {
						c.Violation("registration:"+kind+":call-failed", fmt.Sprintf("%s: instance %s: %v", label, in.name, err), rep)
					} else if w := wantOf(in.name); strings.Join(got, " ") != w {
						c.Violation("registration:"+kind+":stages-differ", fmt.Sprintf("%s: instance %s ran [%s], registered [%s]", label, in.name, strings.Join(got, " "), w), rep)
					}
				}
			}
		}
	}
	c.Extra["registration_histories"] = n
}

// c19Sig classifies a trace mismatch: does the first differing event concern a message identity
// (substituted message not passed on), a skipped/extra stage (re-entrancy) or something else.
func c19Sig(kind string, chain []int, got, want []string) string {
	i := 0
	for i < len(got) && i < len(want) && got[i] == want[i] {
		i++
	}
	g, w := "<end>", "<end>"
	if i < len(got) {
		g = got[i]
	}
	if i < len(want) {
		w = want[i]
	}
	cls := "order"
	if len(g) > 1 && len(w) > 1 && g[:2] == w[:2] && strings.Contains(g, "(") {
		// same stage/core entered with different arguments
		ga, wa := g[strings.Index(g, "("):], w[strings.Index(w, "("):]
		gp, wp := strings.Split(strings.Trim(ga, "()"), ","), strings.Split(strings.Trim(wa, "()"), ",")
		if len(gp) == 2 && len(wp) == 2 {
			if gp[0] != wp[0] {
				cls = "context-not-passed-on"
			} else {
				cls = "message-not-passed-on"
			}
		}
	} else if strings.HasPrefix(w, "S") && strings.HasSuffix(strings.SplitN(w, "(", 2)[0], ">") {
		cls = "stage-skipped-on-reentry"
	}
	return "trace:" + kind + ":" + cls
}
