package checks

import (
	"bytes"
	"context"
	"encoding/hex"
	"errors"
	"fmt"
	"github.com/ovh/kmip-go"
	"github.com/ovh/kmip-go/kmipserver"
	"github.com/ovh/kmip-go/payloads"
	"io"
	"net"
	"os"
	"runtime"
	"sync"
	"sync/atomic"
	"time"

	"github.com/ovh/kmip-go/ttlv"
	"verifharness/vlib"
)

func init() { All["C07"] = Spec{"model_checking", runC07} }

// chunkReader holds the whole remaining stream and answers every Read(p) with a size chosen by the explorer.
type chunkReader struct {
	data    []byte
	off     int
	prefix  []int  // choices to replay
	choices []int  // choices taken
	nalts   []int  // alternatives available at each point
	maxReq  int    // largest len(p) ever requested
	cuts    []bool // segmentation mode: cuts[i] = a read must stop before byte i
	closed  bool
}

func (r *chunkReader) alts(lp int) []int {
	rem := len(r.data) - r.off
	full := lp
	if rem < full {
		full = rem
	}
	out := []int{full}
	for _, s := range []int{1, 2, 7, 8, lp - 1} {
		if s >= 1 && s < full {
			dup := false
			for _, o := range out {
				if o == s {
					dup = true
				}
			}
			if !dup {
				out = append(out, s)
			}
		}
	}
	return out
}

func (r *chunkReader) Read(p []byte) (int, error) {
	if len(p) > r.maxReq {
		r.maxReq = len(p)
	}
	if r.off >= len(r.data) {
		return 0, io.EOF
	}
	if len(p) == 0 {
		return 0, nil
	}
	var n int
	if r.cuts != nil {
		n = 1
		for n < len(p) && r.off+n < len(r.data) && !r.cuts[r.off+n] {
			n++
		}
	} else {
		a := r.alts(len(p))
		c := 0
		if len(r.choices) < len(r.prefix) {
			c = r.prefix[len(r.choices)]
			if c >= len(a) {
				panic("c07: replay divergence")
			}
		}
		r.choices = append(r.choices, c)
		r.nalts = append(r.nalts, len(a))
		n = a[c]
	}
	copy(p, r.data[r.off:r.off+n])
	r.off += n
	return n, nil
}
func (r *chunkReader) Write(p []byte) (int, error) { return len(p), nil }
func (r *chunkReader) Close() error                { r.closed = true; return nil }

func c07Message(size int, fill byte) []byte {
	switch size {
	case -5: // top-level text string of 5 bytes: 8 + 5 + 3 bytes of padding
		return ttlv.MarshalTTLV(ttlv.Value{Tag: 0x420094, Value: "hello"})
	case -9: // top-level byte string of 9 bytes: 8 + 9 + 7 bytes of padding
		return ttlv.MarshalTTLV(ttlv.Value{Tag: 0x420043, Value: bytes.Repeat([]byte{fill}, 9)})
	case -4: // top-level integer: 8 + 4 + 4
		return ttlv.MarshalTTLV(ttlv.Value{Tag: 0x42002A, Value: int32(fill)})
	}
	// a structure of exactly `size` bytes: header + one byte string child (or empty structure for 8)
	if size == 8 {
		return ttlv.MarshalTTLV(ttlv.Value{Tag: 0x420069, Value: ttlv.Struct{}})
	}
	payload := bytes.Repeat([]byte{fill}, size-16-((size-16)%8))
	if size == 16 {
		payload = nil
	}
	b := ttlv.MarshalTTLV(ttlv.Value{Tag: 0x420069, Value: ttlv.Struct{{Tag: 0x420008, Value: payload}}})
	if len(b) != size {
		// adjust with a shorter payload that pads up to the size
		payload = bytes.Repeat([]byte{fill}, size-16-3)
		b = ttlv.MarshalTTLV(ttlv.Value{Tag: 0x420069, Value: ttlv.Struct{{Tag: 0x420008, Value: payload}}})
	}
	if len(b) != size {
		panic(fmt.Sprintf("c07: cannot build message of %d bytes (got %d)", size, len(b)))
	}
	return b
}

// c07Run receives messages until an error and checks the framing oracle for one reader behaviour.
// total = untruncated stream; cutAt = truncation offset (len(stream) if none).
func c07Run(c *vlib.Check, msgs [][]byte, cutAt int, r *chunkReader, desc func() map[string]any) {
	c07RunLimit(c, msgs, cutAt, r, 0, desc)
}

// c07RunLimit: the same with a configured maximum message size (every message of msgs must be within it).
func c07RunLimit(c *vlib.Check, msgs [][]byte, cutAt int, r *chunkReader, limit int, desc func() map[string]any) {
	st := ttlv.NewStream(r, limit)
	end := 0
	atomic.AddInt64(&c.Traces, 1)
	for i := 0; ; i++ {
		var v ttlv.Value
		var err error
		if pv, site := vlib.Catch(func() { err = st.Recv(&v) }); pv != nil {
			c.Violation("panic:"+site, fmt.Sprintf("Stream.Recv panicked: %v", pv), desc())
			return
		}
		atomic.AddInt64(&c.Transitions, 1)
		expectMsg := i < len(msgs) && end+len(msgs[i]) <= cutAt
		if err != nil {
			if expectMsg {
				c.Violation("lost-message", fmt.Sprintf("Recv #%d returned error %v although message %d was completely on the stream", i, err, i), desc())
			}
			return
		}
		if !expectMsg {
			if i >= len(msgs) {
				c.Violation("phantom-message", fmt.Sprintf("Recv #%d returned a message after the last one", i), desc())
			} else {
				c.Violation("message-from-truncated-stream", fmt.Sprintf("Recv #%d returned a message although the stream ends inside it (cut at %d)", i, cutAt), desc())
			}
			return
		}
		got := ttlv.MarshalTTLV(v)
		if !bytes.Equal(got, msgs[i]) {
			c.Violation("wrong-message", fmt.Sprintf("Recv #%d returned a message different from the one sent", i), desc())
			return
		}
		end += len(msgs[i])
		if r.off != end {
			c.Violation("consumed-beyond-message", fmt.Sprintf("after Recv #%d the transport offset is %d, the message ends at %d", i, r.off, end), desc())
			return
		}
	}
}

func runC07(c *vlib.Check) {
	sizes := []int{8, 16, 24, 520, 1032, -5, -9, -4} // negative: top-level non-structure items whose value is padded
	maxSeq, maxDev, segL := 3, 2, 16
	if c.Thorough() {
		maxSeq, maxDev, segL = 3, 3, 24
	}
	c.Rule = fmt.Sprintf("explicit-state search over transport answers: message sequences of length <=%d over sizes {8,16,24,520,1032} and top-level padded scalars (5-byte text, 9-byte byte string, integer); every Read(p) is answered with a size from {len(p),1,2,7,8,len(p)-1} "+
		"(deviation = any answer other than len(p), bound %d, iterated); all 2^(L-1) segmentations of every stream of L<=%d bytes; truncation of every stream at every offset (with full reads and with 1-byte reads); "+
		"announced value lengths {limit-24 .. limit+8 incl. unaligned ones, 2^31-16 .. 2^31+8, 0xBFFFFFF8, 2^32-16 .. 2^32-1} against limits {64, 1 MiB}; every answer sequence also with the limit set to the largest message of the sequence (a per-message limit must not act on the stream total); "+
		"size histories: all ordered pairs of message sizes 16..2048 step 8 (thorough: ..8192, and triples on a 136-byte grid) on one stream, with and without that limit, and all ordered pairs of large messages {4 KiB .. 128 KiB, around powers of two}. Sending side: every ordered pair of Sends (successful, failing, failing half-way, panicking in the encoder) x 4 sizes on two streams - the second stream carries exactly its own message. Header grammar at the top of the stream: type byte {1..10, 0, 11, 0xFF} x announced length {0,1,3,4,5,8,9,12,16,24,40, limit-8, limit, 4096, 2^31-1, 2^32-8} (well-formed for the type or not) followed by a valid message, with full and one-byte reads: the frame is taken off by its announced padded length and the following message arrives intact, a frame above the limit is refused from its 8 header bytes. The rejection is also driven through the real server (1 MiB limit): an oversized header followed by a valid request is answered once and the following bytes are not served; and a two-request stream whose Read fails once with a transient condition (deadline exceeded, temporary error, other timeout, interrupted call) at every byte offset and then goes on: the handlers receive a prefix of the sent requests and no response is written without a request. Reference model: split the byte stream at the announced padded lengths. "+
		"states = distinct (stream, answer sequence) pairs, transitions = Recv calls", maxSeq, maxDev, segL)
	c.Assumptions = []string{"the transport never returns more than len(p) bytes and returns at least one byte per successful Read"}
	var seqs [][]int
	var gen func(cur []int)
	gen = func(cur []int) {
		if len(cur) > 0 {
			seqs = append(seqs, append([]int{}, cur...))
		}
		if len(cur) == maxSeq {
			return
		}
		for _, s := range sizes {
			gen(append(cur, s))
		}
	}
	gen(nil)
	build := func(seq []int) ([][]byte, []byte) {
		var msgs [][]byte
		var stream []byte
		for i, s := range seq {
			m := c07Message(s, byte(0x11*(i+1)))
			msgs = append(msgs, m)
			stream = append(stream, m...)
		}
		return msgs, stream
	}
	var states int64
	// (1) deviation-bounded read-size answers
	vlib.Parallel(len(seqs), 0, func(si int) {
		msgs, stream := build(seqs[si])
		var rec func(prefix []int, dev int)
		rec = func(prefix []int, dev int) {
			r := &chunkReader{data: stream, prefix: prefix}
			c.Eval(append([]byte(fmt.Sprint(seqs[si])), fmt.Sprint(prefix)...), len(prefix) > 0)
			atomic.AddInt64(&states, 1)
			c07Run(c, msgs, len(stream), r, func() map[string]any {
				return map[string]any{"kind": "readsizes", "message_sizes": seqs[si], "choices": r.choices}
			})
			// the same answers with the per-message limit set to the largest message of the sequence: the limit is per
			// message, so nothing changes however much the stream carries in total
			lim := 0
			for _, m := range msgs {
				if len(m) > lim {
					lim = len(m)
				}
			}
			r2 := &chunkReader{data: stream, prefix: prefix}
			atomic.AddInt64(&states, 1)
			c07RunLimit(c, msgs, len(stream), r2, lim, func() map[string]any {
				return map[string]any{"kind": "readsizes", "message_sizes": seqs[si], "choices": r2.choices, "limit": lim}
			})
			if si == 7 && len(prefix) == 1 {
				c.Sample(map[string]any{"message_sizes": seqs[si], "read_answer_choices": r.choices})
			}
			if dev >= maxDev {
				return
			}
			for i := len(prefix); i < len(r.choices); i++ {
				for alt := 1; alt < r.nalts[i]; alt++ {
					np := append(append([]int{}, r.choices[:i]...), alt)
					rec(np, dev+1)
				}
			}
		}
		rec(nil, 0)
	})
	// (2) all segmentations of short streams
	var short [][]int
	for _, q := range seqs {
		t := 0
		for _, s := range q {
			if s < 0 {
				s = map[int]int{-5: 16, -9: 24, -4: 16}[s]
			}
			t += s
		}
		if t <= segL {
			short = append(short, q)
		}
	}
	for _, q := range short {
		msgs, stream := build(q)
		L := len(stream)
		total := 1 << uint(L-1)
		const block = 1 << 14
		nb := (total + block - 1) / block
		vlib.Parallel(nb, 0, func(b int) {
			for m := b * block; m < (b+1)*block && m < total; m++ {
				cuts := make([]bool, L+1)
				for i := 1; i < L; i++ {
					cuts[i] = m&(1<<uint(i-1)) != 0
				}
				r := &chunkReader{data: stream, cuts: cuts}
				c07Run(c, msgs, L, r, func() map[string]any {
					return map[string]any{"kind": "segmentation", "message_sizes": q, "cut_mask": m}
				})
			}
		})
		c.Mu(func() { c.Evaluations += int64(total); c.DistinctN += int64(total) })
		atomic.AddInt64(&states, int64(total))
	}
	// (3) truncation at every offset
	vlib.Parallel(len(seqs), 0, func(si int) {
		msgs, stream := build(seqs[si])
		for cut := 0; cut < len(stream); cut++ {
			for _, oneByte := range []bool{false, true} {
				r := &chunkReader{data: stream[:cut]}
				if oneByte {
					r.cuts = make([]bool, cut+1)
					for i := range r.cuts {
						r.cuts[i] = true
					}
				}
				c.Eval(append([]byte(fmt.Sprint("trunc", seqs[si], cut, oneByte))), true)
				atomic.AddInt64(&states, 1)
				c07Run(c, msgs, cut, r, func() map[string]any {
					return map[string]any{"kind": "truncation", "message_sizes": seqs[si], "cut": cut, "one_byte_reads": oneByte}
				})
			}
		}
	})
	// (5) size histories: all ordered pairs (thorough: also triples on a coarser grid) of message sizes on a dense grid, one
	// stream per pair, with and without a limit equal to the larger one (receive-buffer reuse / growth across messages)
	step, top := 8, 2048
	if c.Thorough() {
		top = 8192
	}
	var grid [][]byte
	for sz := 16; sz <= top; sz += step {
		grid = append(grid, c07Message(sz, 0x5A))
	}
	vlib.Parallel(len(grid), 0, func(i int) {
		for j := range grid {
			msgs := [][]byte{grid[i], grid[j]}
			stream := append(append(make([]byte, 0, len(grid[i])+len(grid[j])), grid[i]...), grid[j]...)
			lim := max(len(grid[i]), len(grid[j]))
			for _, l := range []int{0, lim} {
				r := &chunkReader{data: stream}
				c07RunLimit(c, msgs, len(stream), r, l, func() map[string]any {
					return map[string]any{"kind": "size-history", "message_sizes": []int{len(grid[i]), len(grid[j])}, "limit": l}
				})
			}
		}
		c.Mu(func() { c.Evaluations += int64(2 * len(grid)); c.DistinctN += int64(2 * len(grid)) })
		atomic.AddInt64(&states, int64(2*len(grid)))
	})
	// large messages (around the sizes where a growing encoder / receive buffer is reallocated), all ordered pairs
	var large [][]byte
	for _, sz := range []int{4096, 8184, 8192, 8200, 16384, 16392, 32776, 65536, 65544, 131080} {
		large = append(large, c07Message(sz, 0x5C))
	}
	vlib.Parallel(len(large), 0, func(i int) {
		for j := range large {
			msgs := [][]byte{large[i], large[j], grid[3]}
			var stream []byte
			for _, m := range msgs {
				stream = append(stream, m...)
			}
			for _, l := range []int{0, max(len(large[i]), len(large[j]))} {
				r := &chunkReader{data: stream}
				c07RunLimit(c, msgs, len(stream), r, l, func() map[string]any {
					return map[string]any{"kind": "size-history", "message_sizes": []int{len(large[i]), len(large[j]), len(grid[3])}, "limit": l}
				})
			}
		}
		c.Mu(func() { c.Evaluations += int64(2 * len(large)); c.DistinctN += int64(2 * len(large)) })
		atomic.AddInt64(&states, int64(2*len(large)))
	})
	if c.Thorough() {
		var coarse [][]byte
		for sz := 16; sz <= 4096; sz += 136 {
			coarse = append(coarse, c07Message(sz, 0x5B))
		}
		n := len(coarse)
		vlib.Parallel(n*n, 0, func(ij int) {
			for k := 0; k < n; k++ {
				msgs := [][]byte{coarse[ij/n], coarse[ij%n], coarse[k]}
				var stream []byte
				for _, m := range msgs {
					stream = append(stream, m...)
				}
				r := &chunkReader{data: stream}
				c07RunLimit(c, msgs, len(stream), r, 0, func() map[string]any {
					return map[string]any{"kind": "size-history", "message_sizes": []int{len(msgs[0]), len(msgs[1]), len(msgs[2])}, "limit": 0}
				})
			}
			c.Mu(func() { c.Evaluations += int64(n); c.DistinctN += int64(n) })
			atomic.AddInt64(&states, int64(n))
		})
	}
	// (4) announced lengths against the configured maximum (sequential: measures allocation)
	for _, limit := range []int{64, 1 << 20} {
		for _, vl := range []int64{int64(limit) - 24, int64(limit) - 16, int64(limit) - 13, int64(limit) - 8, int64(limit) - 7, int64(limit), int64(limit) + 8, 0x7FFFFFF0, 0x7FFFFFF8, 0x7FFFFFFF,
			0x80000000, 0x80000001, 0x80000008, 0xBFFFFFF8, 0xFFFFFFF0, 0xFFFFFFF7, 0xFFFFFFF8, 0xFFFFFFF9, 0xFFFFFFFF} {
			total := 8 + (vl+7)/8*8 // header + padded value
			hdr := []byte{0x42, 0x00, 0x69, 0x08, byte(vl >> 24), byte(vl >> 16), byte(vl >> 8), byte(vl)}
			var stream []byte
			within := total <= int64(limit)
			if within {
				stream = append(hdr, make([]byte, total-8)...)
			} else {
				stream = append(hdr, make([]byte, 256)...) // the sender keeps sending; the receiver must give up at the header
			}
			r := &chunkReader{data: stream, prefix: nil}
			st := ttlv.NewStream(r, limit)
			var v ttlv.Value
			var ms0, ms1 runtime.MemStats
			runtime.ReadMemStats(&ms0)
			var err error
			pv, site := vlib.Catch(func() { err = st.Recv(&v) })
			runtime.ReadMemStats(&ms1)
			c.Eval([]byte(fmt.Sprint("limit", limit, vl)), true)
			states++
			rep := map[string]any{"kind": "limit", "limit": limit, "announced_total": total, "header": hex.EncodeToString(hdr)}
			switch {
			case pv != nil:
				c.Violation("panic:"+site, fmt.Sprintf("Recv panicked on announced size %d with limit %d: %v", total, limit, pv), rep)
			case within && err != nil:
				c.Violation("within-limit-rejected", fmt.Sprintf("message of %d bytes rejected with limit %d: %v", total, limit, err), rep)
			case !within && err == nil:
				c.Violation("over-limit-accepted", fmt.Sprintf("message announcing %d bytes accepted with limit %d", total, limit), rep)
			case !within && errors.Is(err, io.EOF):
				c.Violation("over-limit-not-rejected-at-header", fmt.Sprintf("announced %d bytes, limit %d: receiver kept reading until the end of the stream", total, limit), rep)
			}
			if !within {
				if r.maxReq > limit {
					c.Violation("over-limit-read-requested", fmt.Sprintf("announced %d bytes, limit %d: receiver asked the transport for %d bytes", total, limit, r.maxReq), rep)
				}
				if d := int64(ms1.TotalAlloc - ms0.TotalAlloc); d > int64(limit)+(4<<20) {
					c.Violation("over-limit-buffered", fmt.Sprintf("announced %d bytes, limit %d: receiver allocated %d bytes", total, limit, d), rep)
				}
				if r.off > 8+512 {
					c.Violation("over-limit-consumed", fmt.Sprintf("announced %d bytes, limit %d: receiver consumed %d bytes before giving up", total, limit, r.off), rep)
				}
			}
		}
	}
	// (5) header grammar at the top of the stream: a frame whose type byte is any of the ten item types (or an invalid one) and whose
	// announced length is any of a small alphabet - well-formed for that type or not - followed by a valid message. The receiver
	// frames by the announced padded length whatever the type (reference model), so the following message arrives intact; a frame
	// above the limit is refused at its header.
	{
		const limit = 1024
		next := c07Message(24, 0x5A)
		for _, ty := range []byte{1, 2, 3, 4, 5, 6, 7, 8, 9, 10, 0, 11, 0xFF} {
			for _, vl := range []int64{0, 1, 3, 4, 5, 8, 9, 12, 16, 24, 40, limit - 8, limit, 4096, 0x7FFFFFFF, 0xFFFFFFF8} {
				for _, oneByte := range []bool{false, true} {
					total := 8 + (vl+7)/8*8
					hdr := []byte{0x42, 0x00, 0x69, ty, byte(vl >> 24), byte(vl >> 16), byte(vl >> 8), byte(vl)}
					within := total <= limit
					var stream []byte
					if within {
						stream = append(append(append([]byte{}, hdr...), make([]byte, total-8)...), next...)
					} else {
						stream = append(append([]byte{}, hdr...), make([]byte, 64)...)
					}
					r := &chunkReader{data: stream}
					if oneByte {
						r.cuts = make([]bool, len(stream)+1)
						for k := 1; k < len(stream); k++ {
							r.cuts[k] = true
						}
					}
					st := ttlv.NewStream(r, limit)
					label := fmt.Sprintf("top-level frame with type byte %d announcing %d bytes (limit %d, one-byte reads %v), then a valid 24-byte message", ty, vl, limit, oneByte)
					c.Eval([]byte(label), true)
					states++
					rep := map[string]any{"kind": "top-level-header", "case": label, "header": hex.EncodeToString(hdr)}
					var v, v2 ttlv.Value
					var err, err2 error
					if pv, site := vlib.Catch(func() { err = st.Recv(&v) }); pv != nil {
						c.Violation("panic:"+site, fmt.Sprintf("%s: Recv panicked: %v", label, pv), rep)
						continue
					}
					if !within {
						if err == nil {
							c.Violation("over-limit-accepted", label+": accepted", rep)
						} else if r.off > 8 {
							c.Violation("over-limit-consumed", fmt.Sprintf("%s: the receiver consumed %d bytes; the header alone (8 bytes) decides", label, r.off), rep)
						}
						continue
					}
					validType := ty >= 1 && ty <= 10
					if !validType {
						continue // an invalid type byte ends the stream's usefulness: only "no panic" is required here (C08 covers the server's answer)
					}
					consumed := r.off
					if err == nil || ttlv.IsErrEncoding(err) {
						// the frame has been taken off the stream (as a message or as an undecodable one): exactly its bytes
						if !oneByte && consumed < int(total) || oneByte && consumed != int(total) {
							c.Violation("frame-extent", fmt.Sprintf("%s: %d bytes consumed, the frame has %d (err %v)", label, consumed, total, err), rep)
							continue
						}
						if pv, site := vlib.Catch(func() { err2 = st.Recv(&v2) }); pv != nil {
							c.Violation("panic:"+site, fmt.Sprintf("%s: second Recv panicked: %v", label, pv), rep)
							continue
						}
						if err2 != nil || !bytes.Equal(ttlv.MarshalTTLV(v2), next) {
							c.Violation("following-message-damaged", fmt.Sprintf("%s: the message following the frame is received as %x (err %v), sent was %x", label, ttlv.MarshalTTLV(v2), err2, next), rep)
						}
					}
				}
			}
		}
	}
	states += c07Server(c)
	states += c07SendHistories(c)
	states += c07ServerTransientErrors(c)
	c.States = states
	c.Exhaustive = c.Exhaustive || !c07Inconclusive
	if c07Inconclusive {
		c.Exhaustive = false
	}
}

var c07Inconclusive bool

type c07Listener struct {
	ch     chan net.Conn
	closed chan struct{}
	once   sync.Once
}

func (l *c07Listener) Accept() (net.Conn, error) {
	select {
	case c := <-l.ch:
		return c, nil
	case <-l.closed:
		return nil, net.ErrClosed
	}
}
func (l *c07Listener) Close() error   { l.once.Do(func() { close(l.closed) }); return nil }
func (l *c07Listener) Addr() net.Addr { return &net.UnixAddr{Name: "c07", Net: "unix"} }

// c07Server: the same rejection seen through the real server, which receives through a Stream with a 1 MiB limit: a header
// announcing more than the limit followed by a complete, valid request. The server answers the oversized message once
// (invalid message) and must not treat the bytes that follow the rejected header as further messages: no handler runs and
// nothing else is answered.
func c07Server(c *vlib.Check) int64 {
	var n int64
	good := ttlv.MarshalTTLV(func() *kmip.RequestMessage {
		m := kmip.NewRequestMessage(kmip.V1_4, &payloads.ActivateRequestPayload{UniqueIdentifier: "smuggled"})
		return &m
	}())
	for _, vl := range []int64{1 << 20, 1<<20 + 8, 2 << 20, 0x7FFFFFF8, 0x80000000, 0xFFFFFFF8} {
		n++
		c.Eval([]byte(fmt.Sprint("server-oversize", vl)), true)
		rep := map[string]any{"kind": "server-oversize", "announced_value_length": vl}
		var calls atomic.Int64
		exec := kmipserver.NewBatchExecutor()
		exec.Route(kmip.OperationActivate, kmipserver.HandleFunc(func(ctx context.Context, req *payloads.ActivateRequestPayload) (*payloads.ActivateResponsePayload, error) {
			calls.Add(1)
			return &payloads.ActivateResponsePayload{UniqueIdentifier: req.UniqueIdentifier}, nil
		}))
		lis := &c07Listener{ch: make(chan net.Conn), closed: make(chan struct{})}
		srv := kmipserver.NewServer(lis, exec)
		served := make(chan struct{})
		go func() { defer close(served); _ = srv.Serve() }()
		a, b := net.Pipe()
		lis.ch <- b
		hdr := []byte{0x42, 0x00, 0x78, 0x01, byte(vl >> 24), byte(vl >> 16), byte(vl >> 8), byte(vl)}
		go func() { _, _ = a.Write(append(append([]byte{}, hdr...), good...)) }()
		st := ttlv.NewStream(a, 0)
		_ = a.SetReadDeadline(time.Now().Add(20 * time.Second))
		responses := 0
		var lastErr error
		for {
			var resp kmip.ResponseMessage
			if err := st.Recv(&resp); err != nil {
				lastErr = err
				break
			}
			responses++
			if responses == 1 && (len(resp.BatchItem) != 1 || resp.BatchItem[0].ResultStatus != kmip.ResultStatusOperationFailed) {
				c.Violation("server-oversize:first-response", fmt.Sprintf("announced %d bytes: the first response is not a single failed item", vl), rep)
			}
			if responses >= 3 {
				break
			}
		}
		_ = a.Close()
		_ = srv.Shutdown()
		<-served
		if responses > 1 || calls.Load() > 0 {
			c.Violation("server-oversize:bytes-after-rejected-header-served", fmt.Sprintf("announced %d bytes (limit 1 MiB): the server sent %d responses and ran %d handler(s); the bytes following the rejected header were treated as messages", vl, responses, calls.Load()), rep)
		} else if responses == 0 {
			c.Violation("server-oversize:no-response", fmt.Sprintf("announced %d bytes: no response before the connection ended (%v)", vl, lastErr), rep)
		} else if ne, ok := lastErr.(net.Error); ok && ne.Timeout() {
			c07Inconclusive = true // the connection was still open after 20 s: not decided here (no wall-clock verdicts)
			fmt.Printf("MACHINERY: server-oversize %d: the connection was not closed within 20 s; left undecided\n", vl)
		}
	}
	return n
}

type c07Writer struct {
	buf      bytes.Buffer
	failKind int      // 0 ok, 1 error without writing, 2 half written then error
	held     [][]byte // the slices handed to Write (to detect later modification of bytes still owned by the writer)
}

func (w *c07Writer) Read(p []byte) (int, error) { return 0, io.EOF }
func (w *c07Writer) Close() error               { return nil }
func (w *c07Writer) Write(p []byte) (int, error) {
	w.held = append(w.held, p)
	switch w.failKind {
	case 1:
		return 0, errors.New("write: broken pipe")
	case 2:
		w.buf.Write(p[:len(p)/2])
		return len(p) / 2, errors.New("write: connection reset")
	}
	w.buf.Write(p)
	return len(p), nil
}

// c07SendHistories: the sending side. For every ordered pair (first, second) over {a Send whose Write fails, a Send whose
// Write fails half-way, a Send whose encoding panics, a successful Send} x message sizes {small, 5 KiB, 9 KiB, 40 KiB}, the
// two Sends go to two different streams: the second stream receives exactly the bytes of its own message, and the bytes
// handed to the first stream's writer are not modified afterwards.
func c07SendHistories(c *vlib.Check) int64 {
	var n int64
	sizes := []int{24, 5000, 9000, 40000}
	mk := func(sz int, fill byte) ttlv.Value {
		return ttlv.Value{Tag: 0x420069, Value: ttlv.Struct{{Tag: 0x420008, Value: bytes.Repeat([]byte{fill}, sz)}}}
	}
	for _, firstKind := range []int{0, 1, 2, 3} { // 3 = the encoding panics (negative interval inside a structure)
		for _, s1 := range sizes {
			for _, s2 := range sizes {
				n++
				label := fmt.Sprintf("send history: first Send kind=%d of %d bytes, then a Send of %d bytes on another stream", firstKind, s1, s2)
				c.Eval([]byte(label), true)
				rep := map[string]any{"kind": "send-history", "case": label}
				w1 := &c07Writer{failKind: firstKind % 3}
				st1 := ttlv.NewStream(w1, 0)
				var first any = mk(s1, 0xA1)
				if firstKind == 3 {
					first = ttlv.Value{Tag: 0x420069, Value: ttlv.Struct{{Tag: 0x420008, Value: bytes.Repeat([]byte{0xA1}, s1)}, {Tag: 0x42000A, Value: -time.Second}}}
				}
				vlib.Catch(func() { _ = st1.Send(first) })
				var snapshot [][]byte
				for _, h := range w1.held {
					snapshot = append(snapshot, append([]byte{}, h...))
				}
				w2 := &c07Writer{}
				st2 := ttlv.NewStream(w2, 0)
				second := mk(s2, 0xB2)
				want := ttlv.MarshalTTLV(second)
				want = append([]byte{}, want...)
				var err error
				if pv, site := vlib.Catch(func() { err = st2.Send(second) }); pv != nil {
					c.Violation("send-history:panic:"+site, fmt.Sprintf("%s: the second Send panicked: %v", label, pv), rep)
					continue
				}
				if err != nil || !bytes.Equal(w2.buf.Bytes(), want) {
					c.Violation("send-history:foreign-bytes-on-stream", fmt.Sprintf("%s: the second stream received %d bytes (err %v), its message encodes to %d bytes; the stream carries bytes that are not its message", label, w2.buf.Len(), err, len(want)), rep)
					continue
				}
				for i, h := range w1.held {
					if !bytes.Equal(h, snapshot[i]) {
						c.Violation("send-history:written-bytes-modified", fmt.Sprintf("%s: the bytes handed to the first stream's writer changed when the second message was sent", label), rep)
						break
					}
				}
			}
		}
	}
	return n
}

// c07ScriptConn is the server side of a connection whose Read delivers data[:failAt], then fails once with failErr
// (nothing consumed), then delivers the rest, then reports the end of the stream. Writes are recorded.
type c07ScriptConn struct {
	mu      sync.Mutex
	data    []byte
	pos     int
	failAt  int
	failErr error
	failed  bool
	chunk   int // 0 = as much as fits
	out     bytes.Buffer
	closed  chan struct{}
	once    sync.Once
}

type c07Addr struct{}

func (c07Addr) Network() string { return "script" }
func (c07Addr) String() string  { return "script" }

type c07NetErr struct {
	msg                string
	timeout, temporary bool
}

func (e *c07NetErr) Error() string   { return e.msg }
func (e *c07NetErr) Timeout() bool   { return e.timeout }
func (e *c07NetErr) Temporary() bool { return e.temporary }

func (c *c07ScriptConn) Read(p []byte) (int, error) {
	c.mu.Lock()
	defer c.mu.Unlock()
	select {
	case <-c.closed:
		return 0, net.ErrClosed
	default:
	}
	if len(p) == 0 {
		return 0, nil
	}
	if c.failErr != nil && !c.failed && c.pos == c.failAt {
		c.failed = true
		return 0, c.failErr
	}
	if c.pos >= len(c.data) {
		return 0, io.EOF
	}
	end := len(c.data)
	if c.failErr != nil && !c.failed && c.failAt > c.pos {
		end = c.failAt
	}
	n := end - c.pos
	if n > len(p) {
		n = len(p)
	}
	if c.chunk > 0 && n > c.chunk {
		n = c.chunk
	}
	copy(p, c.data[c.pos:c.pos+n])
	c.pos += n
	return n, nil
}
func (c *c07ScriptConn) Write(p []byte) (int, error) {
	c.mu.Lock()
	defer c.mu.Unlock()
	c.out.Write(p)
	return len(p), nil
}
func (c *c07ScriptConn) Close() error                       { c.once.Do(func() { close(c.closed) }); return nil }
func (c *c07ScriptConn) LocalAddr() net.Addr                { return c07Addr{} }
func (c *c07ScriptConn) RemoteAddr() net.Addr               { return c07Addr{} }
func (c *c07ScriptConn) SetDeadline(t time.Time) error      { return nil }
func (c *c07ScriptConn) SetReadDeadline(t time.Time) error  { return nil }
func (c *c07ScriptConn) SetWriteDeadline(t time.Time) error { return nil }

// c07ServerTransientErrors: the receiving side inside the real server when the transport reports a transient condition
// (read deadline exceeded, temporary error, interrupted call) once, at every byte offset of a two-message stream, and then
// goes on delivering: whatever the server does about the error, the requests it hands to the handlers are a prefix of the
// requests sent, in order, and it writes no more responses than it received requests. The first request carries an opaque
// byte string (Unique Batch Item ID) whose content is itself a well-formed request message.
func c07ServerTransientErrors(c *vlib.Check) int64 {
	var n int64
	inner := kmip.NewRequestMessage(kmip.V1_4, &payloads.DestroyRequestPayload{UniqueIdentifier: "victim"})
	m1 := kmip.NewRequestMessage(kmip.V1_4, &payloads.ActivateRequestPayload{UniqueIdentifier: "first"})
	m1.BatchItem[0].UniqueBatchItemID = append([]byte{}, ttlv.MarshalTTLV(&inner)...)
	m2 := kmip.NewRequestMessage(kmip.V1_4, &payloads.ActivateRequestPayload{UniqueIdentifier: "second"})
	b1 := append([]byte{}, ttlv.MarshalTTLV(&m1)...)
	data := append(append([]byte{}, b1...), ttlv.MarshalTTLV(&m2)...)
	errs := []struct {
		name string
		mk   func() error
	}{
		{"read deadline exceeded", func() error { return &net.OpError{Op: "read", Net: "script", Err: os.ErrDeadlineExceeded} }},
		{"temporary error", func() error { return &net.OpError{Op: "read", Net: "script", Err: &c07NetErr{"resource temporarily unavailable", false, true}} }},
		{"timeout of another kind", func() error { return &c07NetErr{"i/o timeout", true, true} }},
		{"interrupted system call", func() error { return errors.New("read: interrupted system call") }},
	}
	type job struct{ ei, at, chunk int }
	var jobs []job
	for ei := range errs {
		for at := 0; at <= len(data); at++ {
			jobs = append(jobs, job{ei, at, 0})
			if at%8 == 0 {
				jobs = append(jobs, job{ei, at, 3})
			}
		}
	}
	var mu sync.Mutex
	vlib.Parallel(len(jobs), 0, func(i int) {
		j := jobs[i]
		label := fmt.Sprintf("server receives 2 requests (%d bytes); Read fails once with %q at offset %d (reads of <= %d bytes, 0 = unlimited), then delivers the rest", len(data), errs[j.ei].name, j.at, j.chunk)
		c.Eval([]byte(label), true)
		rep := map[string]any{"kind": "server-transient-error", "case": label}
		var hmu sync.Mutex
		var handled []string
		exec := kmipserver.NewBatchExecutor()
		exec.Route(kmip.OperationActivate, kmipserver.HandleFunc(func(ctx context.Context, req *payloads.ActivateRequestPayload) (*payloads.ActivateResponsePayload, error) {
			hmu.Lock()
			handled = append(handled, "Activate "+req.UniqueIdentifier)
			hmu.Unlock()
			return &payloads.ActivateResponsePayload{UniqueIdentifier: req.UniqueIdentifier}, nil
		}))
		exec.Route(kmip.OperationDestroy, kmipserver.HandleFunc(func(ctx context.Context, req *payloads.DestroyRequestPayload) (*payloads.DestroyResponsePayload, error) {
			hmu.Lock()
			handled = append(handled, "Destroy "+req.UniqueIdentifier)
			hmu.Unlock()
			return &payloads.DestroyResponsePayload{UniqueIdentifier: req.UniqueIdentifier}, nil
		}))
		lis := &c07Listener{ch: make(chan net.Conn), closed: make(chan struct{})}
		srv := kmipserver.NewServer(lis, exec)
		served := make(chan struct{})
		go func() { defer close(served); _ = srv.Serve() }()
		sc := &c07ScriptConn{data: data, failAt: j.at, failErr: errs[j.ei].mk(), chunk: j.chunk, closed: make(chan struct{})}
		lis.ch <- sc
		select {
		case <-sc.closed: // the server closes the connection when it has seen the end of the stream (or given up on it)
		case <-time.After(30 * time.Second):
			c07Inconclusive = true // no wall-clock verdicts: left undecided
			fmt.Printf("MACHINERY: %s: the connection was not closed within 30 s; left undecided\n", label)
			_ = sc.Close()
		}
		_ = srv.Shutdown()
		<-served
		hmu.Lock()
		got := append([]string{}, handled...)
		hmu.Unlock()
		sent := []string{"Activate first", "Activate second"}
		for k, h := range got {
			if k >= len(sent) || h != sent[k] {
				c.Violation("server-transient-error:request-never-sent-was-handled", fmt.Sprintf("%s: the handlers received %v; sent were %v", label, got, sent), rep)
				return
			}
		}
		// responses written
		sc.mu.Lock()
		out := append([]byte{}, sc.out.Bytes()...)
		sc.mu.Unlock()
		responses := 0
		for len(out) >= 8 {
			l := (int(out[4])<<24 | int(out[5])<<16 | int(out[6])<<8 | int(out[7]) + 7) / 8 * 8
			if 8+l > len(out) {
				break
			}
			responses++
			out = out[8+l:]
		}
		if responses > len(got) {
			c.Violation("server-transient-error:response-without-request", fmt.Sprintf("%s: the server wrote %d response(s) although only %d of the sent requests reached a handler (a valid stream was answered as if it held something else)", label, responses, len(got)), rep)
			return
		}
		mu.Lock()
		n++
		mu.Unlock()
	})
	return n
}
