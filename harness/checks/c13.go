package checks

import (
	"context"
	"fmt"
	"net"
	"sort"
	"sync"

	"github.com/ovh/kmip-go"
	"github.com/ovh/kmip-go/kmipclient"
	"github.com/ovh/kmip-go/kmipserver"
	"github.com/ovh/kmip-go/payloads"
	"github.com/ovh/kmip-go/ttlv"
	"verifharness/vlib"
)

func init() { All["C13"] = Spec{"exploration", runC13} }

var allVersions = []kmip.ProtocolVersion{kmip.V1_0, kmip.V1_1, kmip.V1_2, kmip.V1_3, kmip.V1_4}

func subset(mask int) []kmip.ProtocolVersion {
	var r []kmip.ProtocolVersion
	for i, v := range allVersions {
		if mask&(1<<uint(i)) != 0 {
			r = append(r, v)
		}
	}
	return r
}

func vstr(vs []kmip.ProtocolVersion) string {
	s := "{"
	for i, v := range vs {
		if i > 0 {
			s += ","
		}
		s += fmt.Sprintf("%d.%d", v.ProtocolVersionMajor, v.ProtocolVersionMinor)
	}
	return s + "}"
}

func permutations(vs []kmip.ProtocolVersion) [][]kmip.ProtocolVersion {
	if len(vs) <= 1 {
		return [][]kmip.ProtocolVersion{append([]kmip.ProtocolVersion{}, vs...)}
	}
	var out [][]kmip.ProtocolVersion
	for i := range vs {
		rest := append(append([]kmip.ProtocolVersion{}, vs[:i]...), vs[i+1:]...)
		for _, p := range permutations(rest) {
			out = append(out, append([]kmip.ProtocolVersion{vs[i]}, p...))
		}
	}
	return out
}

// serverBehaviour answers a decoded request.
type c13server struct {
	name     string
	versions []kmip.ProtocolVersion // what the server supports (for the reference)
	nodisc   bool
	handle   func(req *kmip.RequestMessage) *kmip.ResponseMessage
}

func scripted(name string, supported, listed []kmip.ProtocolVersion, filter bool) c13server {
	return c13server{name: name, versions: supported, handle: func(req *kmip.RequestMessage) *kmip.ResponseMessage {
		resp := &kmip.ResponseMessage{Header: kmip.ResponseHeader{ProtocolVersion: req.Header.ProtocolVersion, BatchCount: 1}}
		bi := kmip.ResponseBatchItem{Operation: req.BatchItem[0].Operation}
		switch p := req.BatchItem[0].RequestPayload.(type) {
		case *payloads.DiscoverVersionsRequestPayload:
			out := []kmip.ProtocolVersion{}
			for _, v := range listed {
				if !filter || len(p.ProtocolVersion) == 0 || containsV(p.ProtocolVersion, v) {
					out = append(out, v)
				}
			}
			bi.ResponsePayload = &payloads.DiscoverVersionsResponsePayload{ProtocolVersion: out}
		case *payloads.ActivateRequestPayload:
			bi.ResponsePayload = &payloads.ActivateResponsePayload{UniqueIdentifier: p.UniqueIdentifier}
		}
		resp.BatchItem = []kmip.ResponseBatchItem{bi}
		return resp
	}}
}

func containsV(vs []kmip.ProtocolVersion, v kmip.ProtocolVersion) bool {
	for _, x := range vs {
		if x == v {
			return true
		}
	}
	return false
}

func realExecutor(name string, set []kmip.ProtocolVersion, useSetter bool) c13server {
	exec := kmipserver.NewBatchExecutor()
	if useSetter {
		exec.SetSupportedProtocolVersions(append([]kmip.ProtocolVersion{}, set...)...)
	}
	exec.Route(kmip.OperationActivate, kmipserver.HandleFunc(func(ctx context.Context, req *payloads.ActivateRequestPayload) (*payloads.ActivateResponsePayload, error) {
		return &payloads.ActivateResponsePayload{UniqueIdentifier: req.UniqueIdentifier}, nil
	}))
	return c13server{name: name, versions: set, handle: func(req *kmip.RequestMessage) *kmip.ResponseMessage {
		return exec.HandleRequest(context.Background(), req)
	}}
}

func noDiscovery(set []kmip.ProtocolVersion) c13server {
	return c13server{name: "discovery-unsupported", versions: set, nodisc: true, handle: func(req *kmip.RequestMessage) *kmip.ResponseMessage {
		resp := &kmip.ResponseMessage{Header: kmip.ResponseHeader{ProtocolVersion: req.Header.ProtocolVersion, BatchCount: 1}}
		bi := kmip.ResponseBatchItem{Operation: req.BatchItem[0].Operation}
		switch p := req.BatchItem[0].RequestPayload.(type) {
		case *payloads.ActivateRequestPayload:
			bi.ResponsePayload = &payloads.ActivateResponsePayload{UniqueIdentifier: p.UniqueIdentifier}
		default:
			bi.ResultStatus = kmip.ResultStatusOperationFailed
			bi.ResultReason = kmip.ResultReasonOperationNotSupported
			bi.ResultMessage = "not supported"
		}
		resp.BatchItem = []kmip.ResponseBatchItem{bi}
		return resp
	}}
}

// c13Cell runs one configuration: dial + one follow-up request. Returns adopted version (nil if dial failed) and the
// header version the server saw on the follow-up request.
func c13Cell(cluster bool, client []kmip.ProtocolVersion, enforce *kmip.ProtocolVersion, srv c13server) (adopted, seen, seenClone, seenOther *kmip.ProtocolVersion, dialErr error, panicked any) {
	opts := []kmipclient.Option{kmipclient.WithKmipVersions(client...)}
	if enforce != nil {
		opts = append(opts, kmipclient.EnforceVersion(*enforce))
	}
	return c13DialFull(cluster, opts, srv)
}

// c13Dial: one DialContext with the given options against srv, plus one follow-up request.
func c13Dial(cfg []kmipclient.Option, srv c13server) (adopted *kmip.ProtocolVersion, seen *kmip.ProtocolVersion, dialErr error, panicked any) {
	adopted, seen, _, dialErr, panicked = c13DialVia(false, cfg, srv)
	return
}

// c13DialVia connects through DialContext or DialClusterContext, sends one follow-up request, then clones the client
// (a clone inherits the negotiated version without negotiating) and sends one request through the clone. seen / seenClone
// are the header versions the server saw on those two requests.
func c13DialVia(cluster bool, cfg []kmipclient.Option, srv c13server) (adopted, seen, seenClone *kmip.ProtocolVersion, dialErr error, panicked any) {
	adopted, seen, seenClone, _, dialErr, panicked = c13DialFull(cluster, cfg, srv)
	return
}

// c13DialFull also reports, in seenOther, the first header version differing from the adopted one among the non-Activate
// requests (Discover Versions sent by the application, alone and in a batch) received after Dial returned.
func c13DialFull(cluster bool, cfg []kmipclient.Option, srv c13server) (adopted, seen, seenClone, seenOther *kmip.ProtocolVersion, dialErr error, panicked any) {
	var mu sync.Mutex
	var wg sync.WaitGroup
	var conns []net.Conn
	var acts []kmip.ProtocolVersion
	var postDial bool                  // set once Dial has returned
	var postOther []kmip.ProtocolVersion // header versions of the non-Activate requests received after that
	dialer := func(ctx context.Context) (net.Conn, error) {
		a, b := net.Pipe()
		mu.Lock()
		conns = append(conns, a)
		mu.Unlock()
		wg.Add(1)
		go func() {
			defer wg.Done()
			st := ttlv.NewStream(b, 0)
			for {
				var req kmip.RequestMessage
				if err := st.Recv(&req); err != nil {
					_ = b.Close()
					return
				}
				mu.Lock()
				if _, ok := req.BatchItem[0].RequestPayload.(*payloads.ActivateRequestPayload); ok {
					acts = append(acts, req.Header.ProtocolVersion)
				} else if postDial {
					postOther = append(postOther, req.Header.ProtocolVersion)
				}
				mu.Unlock()
				if err := st.Send(srv.handle(&req)); err != nil {
					_ = b.Close()
					return
				}
			}
		}()
		return a, nil
	}
	opts := append([]kmipclient.Option{kmipclient.WithDialerUnsafe(dialer)}, cfg...)
	defer func() {
		if r := recover(); r != nil {
			panicked = r
		}
		mu.Lock()
		for _, c := range conns {
			_ = c.Close()
		}
		mu.Unlock()
		wg.Wait()
	}()
	var cl *kmipclient.Client
	var err error
	if cluster {
		cl, err = kmipclient.DialClusterContext(context.Background(), []string{"pipe-a", "pipe-b"}, opts...)
	} else {
		cl, err = kmipclient.DialContext(context.Background(), "pipe", opts...)
	}
	if err != nil {
		return nil, nil, nil, nil, err, nil
	}
	v := cl.Version()
	adopted = &v
	mu.Lock()
	postDial = true
	mu.Unlock()
	_, _ = cl.Request(context.Background(), &payloads.ActivateRequestPayload{UniqueIdentifier: "x"})
	// a Discover Versions request sent by the application after connecting is a subsequent request like any other
	_, _ = cl.Request(context.Background(), &payloads.DiscoverVersionsRequestPayload{})
	_, _ = cl.Batch(context.Background(), &payloads.DiscoverVersionsRequestPayload{ProtocolVersion: []kmip.ProtocolVersion{kmip.V1_2}}, &payloads.ActivateRequestPayload{UniqueIdentifier: "z"})
	mu.Lock()
	for _, pv := range postOther {
		if pv != v && seenOther == nil {
			bad := pv
			seenOther = &bad
		}
	}
	if len(acts) > 0 {
		s := acts[len(acts)-1]
		seen = &s
	}
	n := len(acts)
	mu.Unlock()
	if cl2, cerr := cl.Clone(); cerr == nil {
		_, _ = cl2.Request(context.Background(), &payloads.ActivateRequestPayload{UniqueIdentifier: "y"})
		mu.Lock()
		if len(acts) > n {
			s := acts[len(acts)-1]
			seenClone = &s
		}
		mu.Unlock()
		_ = cl2.Close()
	}
	_ = cl.Close()
	return adopted, seen, seenClone, seenOther, nil, nil
}

func maxCommon(a, b []kmip.ProtocolVersion) *kmip.ProtocolVersion {
	var best *kmip.ProtocolVersion
	for _, v := range a {
		if containsV(b, v) && (best == nil || ttlv.CompareVersions(v, *best) > 0) {
			vv := v
			best = &vv
		}
	}
	return best
}

func runC13(c *vlib.Check) {
	c.Rule = "exhaustive product of configurations: 31 non-empty client subsets of {1.0..1.4} x 32 server subsets x server behaviours {real BatchExecutor with default versions, real executor after " +
		"SetSupportedProtocolVersions, discovery unsupported, scripted server listing descending / ascending / every permutation (sets <=3) / versions the client did not offer / empty list} x " +
		"{not enforced, enforced (5 values, against servers listing everything / not supporting discovery / not listing the enforced version / listing nothing)}; each cell = one DialContext, and one DialClusterContext, + one follow-up request + one request through a Clone of the client, over in-process pipes; reference = max(client ∩ server); option histories (one Option value reused across two Dials) and server histories (every ordered pair of client sets negotiating one after the other with one real executor, 8 server configurations). distinct = distinct cells"
	c.Assumptions = []string{"the quantifier is over configurations, not schedules: each cell is a single deterministic exchange",
		"when a real executor restricted to a set without 1.1 rejects the (1.1-framed) discovery request for its version, a failed connection is accepted; a wrong adopted version is not"}
	type cell struct {
		client  []kmip.ProtocolVersion
		enforce *kmip.ProtocolVersion
		srv     func() c13server
		desc    string
	}
	var cells []cell
	for cm := 1; cm < 32; cm++ {
		cl := subset(cm)
		for sm := 0; sm < 32; sm++ {
			sv := subset(sm)
			desc := sort.SearchInts
			_ = desc
			add := func(name string, f func() c13server) {
				cells = append(cells, cell{client: cl, srv: f, desc: name})
			}
			if sm == 31 {
				add("real-executor-default", func() c13server { return realExecutor("real-executor-default", sv, false) })
			}
			if sm != 0 {
				add("real-executor-set-versions", func() c13server { return realExecutor("real-executor-set-versions", sv, true) })
			}
			add("discovery-unsupported", func() c13server { return noDiscovery(sv) })
			descend := append([]kmip.ProtocolVersion{}, sv...)
			sort.Slice(descend, func(i, j int) bool { return ttlv.CompareVersions(descend[i], descend[j]) > 0 })
			add("scripted-descending-filtered", func() c13server { return scripted("scripted-descending-filtered", sv, descend, true) })
			add("scripted-ascending-filtered", func() c13server { return scripted("scripted-ascending-filtered", sv, sv, true) })
			add("scripted-lists-unoffered", func() c13server { return scripted("scripted-lists-unoffered", sv, descend, false) })
			add("scripted-ascending-unfiltered", func() c13server { return scripted("scripted-ascending-unfiltered", sv, sv, false) })
			if len(sv) >= 2 && len(sv) <= 3 {
				for pi, p := range permutations(sv) {
					p := p
					add(fmt.Sprintf("scripted-permutation-%d", pi), func() c13server { return scripted("scripted-permutation", sv, p, false) })
				}
			}
			if sm == 0 {
				add("scripted-empty-list", func() c13server { return scripted("scripted-empty-list", nil, nil, true) })
			}
		}
		// enforced versions: no negotiation at all
		for i := range allVersions {
			e := allVersions[i]
			cells = append(cells, cell{client: cl, enforce: &e, srv: func() c13server { return scripted("enforced", allVersions, allVersions, true) }, desc: "enforced"})
			// ... whatever the server would have answered to a discovery: it does not support it, does not list the enforced version, lists nothing
			var others []kmip.ProtocolVersion
			for _, v := range allVersions {
				if v != e {
					others = append(others, v)
				}
			}
			cells = append(cells,
				cell{client: cl, enforce: &e, srv: func() c13server { return noDiscovery(allVersions) }, desc: "enforced-discovery-unsupported"},
				cell{client: cl, enforce: &e, srv: func() c13server { return scripted("enforced-not-listed", others, others, false) }, desc: "enforced-not-listed"},
				cell{client: cl, enforce: &e, srv: func() c13server { return scripted("enforced-empty-list", nil, nil, true) }, desc: "enforced-empty-list"})
		}
	}
	vlib.Parallel(2*len(cells), 0, func(i2 int) {
		i, cluster := i2/2, i2%2 == 1
		k := cells[i]
		srv := k.srv()
		label := fmt.Sprintf("client=%s server=%s behaviour=%s", vstr(k.client), vstr(srv.versions), k.desc)
		if cluster {
			label = "DialClusterContext " + label
		}
		if k.enforce != nil {
			label += fmt.Sprintf(" enforce=%d.%d", k.enforce.ProtocolVersionMajor, k.enforce.ProtocolVersionMinor)
		}
		c.Eval([]byte(label), true)
		if i%1009 == 0 {
			c.Sample(label)
		}
		rep := map[string]any{"kind": "negotiation-cell", "cell": label}
		adopted, seen, seenClone, seenOther, derr, pv := c13Cell(cluster, k.client, k.enforce, srv)
		if pv != nil {
			sig := "panic:" + k.desc
			if cluster {
				sig = "panic:DialClusterContext"
			}
			c.Violation(sig, fmt.Sprintf("dial panicked: %v — %s", pv, label), rep)
			return
		}
		if derr == nil && adopted != nil && seenOther != nil {
			c.Violation("follow-up-header-version:discover-versions", fmt.Sprintf("a Discover Versions request sent after connecting carried version %v, the client had adopted %v — %s", *seenOther, *adopted, label), rep)
		}
		if derr == nil && adopted != nil && (seenClone == nil || *seenClone != *adopted) {
			c.Violation("clone-header-version", fmt.Sprintf("a clone of the client sent its request with version %v, the client had adopted %v — %s", seenClone, *adopted, label), rep)
		}
		if k.enforce != nil {
			if derr != nil || adopted == nil || *adopted != *k.enforce {
				c.Violation("enforced-version-not-used", fmt.Sprintf("enforced version not adopted (%v, %v) — %s", adopted, derr, label), rep)
			} else if seen == nil || *seen != *k.enforce {
				c.Violation("follow-up-header-version", fmt.Sprintf("follow-up request carried %v — %s", seen, label), rep)
			}
			return
		}
		var want *kmip.ProtocolVersion
		if srv.nodisc {
			if containsV(k.client, kmip.V1_0) {
				v := kmip.V1_0
				want = &v
			}
		} else {
			want = maxCommon(k.client, srv.versions)
		}
		class := k.desc
		if len(class) > 20 && class[:20] == "scripted-permutation" {
			class = "scripted-permutation"
		}
		if k.desc == "real-executor-set-versions" && !containsV(srv.versions, kmip.V1_1) && derr != nil {
			// the discovery request itself is framed as KMIP 1.1 (the version that introduced the operation); a server
			// that does not speak 1.1 rejects the message before looking at it. The property does not say what the
			// client must do then: failing to connect is accepted, adopting a wrong version is not.
			return
		}
		switch {
		case want == nil && derr == nil:
			c.Violation("connected-without-common-version:"+class, fmt.Sprintf("dial succeeded with version %v although no version is common — %s", *adopted, label), rep)
		case want != nil && derr != nil:
			c.Violation("dial-failed-with-common-version:"+class, fmt.Sprintf("dial failed (%v) although %v is common — %s", derr, *want, label), rep)
		case want != nil && *adopted != *want:
			sig := "not-highest-common:" + class
			if !containsV(k.client, *adopted) {
				sig = "adopted-version-not-configured:" + class
			}
			c.Violation(sig, fmt.Sprintf("adopted %v, highest common version is %v — %s", *adopted, *want, label), rep)
		case want != nil && (seen == nil || *seen != *adopted):
			c.Violation("follow-up-header-version", fmt.Sprintf("follow-up request carried %v, adopted %v — %s", seen, *adopted, label), rep)
		}
	})
	// history part: the same Option values reused across two successive Dials (an Option must not carry state from one
	// Dial to the next): Dial(o1, oB) then Dial(o2, oB) and Dial(oB, o2); the second client's configured set is S2 ∪ SB.
	type hist struct{ s1, s2, sb int }
	var hs []hist
	for s1 := 1; s1 < 32; s1++ {
		for s2 := 1; s2 < 32; s2++ {
			for _, sb := range []int{1, 2, 4, 8, 16, 3, 17, 31} {
				hs = append(hs, hist{s1, s2, sb})
			}
		}
	}
	vlib.Parallel(len(hs), 0, func(i int) {
		h := hs[i]
		srv := scripted("scripted-lists-unoffered", allVersions, []kmip.ProtocolVersion{kmip.V1_4, kmip.V1_3, kmip.V1_2, kmip.V1_1, kmip.V1_0}, false)
		o1, o2, oB := kmipclient.WithKmipVersions(subset(h.s1)...), kmipclient.WithKmipVersions(subset(h.s2)...), kmipclient.WithKmipVersions(subset(h.sb)...)
		for order := 0; order < 2; order++ {
			label := fmt.Sprintf("history: Dial(WithKmipVersions%s, base%s) then Dial(WithKmipVersions%s, same base option) order=%d", vstr(subset(h.s1)), vstr(subset(h.sb)), vstr(subset(h.s2)), order)
			c.Eval([]byte(label), true)
			first := []kmipclient.Option{o1, oB}
			second := []kmipclient.Option{o2, oB}
			if order == 1 {
				first, second = []kmipclient.Option{oB, o1}, []kmipclient.Option{oB, o2}
			}
			if _, _, _, pv := c13Dial(first, srv); pv != nil {
				c.Violation("panic:history", fmt.Sprintf("%s: %v", label, pv), map[string]any{"kind": "negotiation-history", "cell": label})
				continue
			}
			adopted, seen, derr, pv := c13Dial(second, srv)
			rep := map[string]any{"kind": "negotiation-history", "cell": label}
			if pv != nil {
				c.Violation("panic:history", fmt.Sprintf("%s: %v", label, pv), rep)
				continue
			}
			want := maxCommon(subset(h.s2|h.sb), srv.versions)
			switch {
			case derr != nil:
				c.Violation("history:dial-failed", fmt.Sprintf("%s: second dial failed: %v", label, derr), rep)
			case *adopted != *want:
				sig := "history:not-highest-common"
				if !containsV(subset(h.s2|h.sb), *adopted) {
					sig = "history:adopted-version-from-earlier-dial"
				}
				c.Violation(sig, fmt.Sprintf("%s: second client adopted %v, its configured set gives %v", label, *adopted, *want), rep)
			case seen == nil || *seen != *adopted:
				c.Violation("follow-up-header-version", fmt.Sprintf("%s: follow-up carried %v", label, seen), rep)
			}
		}
	})
	// server-history part: two successive clients (every ordered pair of configured sets) negotiate with ONE real executor;
	// what the first client asked for must not change what the second one gets
	type shist struct{ s1, s2, sv int }
	var sh []shist
	for s1 := 1; s1 < 32; s1++ {
		for s2 := 1; s2 < 32; s2++ {
			for _, sv := range []int{0, 31, 30, 27, 21, 10, 6, 2} { // 0 = executor left on its default versions
				sh = append(sh, shist{s1, s2, sv})
			}
		}
	}
	var shMu sync.Mutex // executors left on their defaults share package-level state: those histories run one at a time
	vlib.Parallel(len(sh), 0, func(i int) {
		h := sh[i]
		svSet := subset(h.sv)
		var srv c13server
		if h.sv == 0 {
			shMu.Lock()
			defer shMu.Unlock()
			svSet = allVersions
			srv = realExecutor("real-executor-default", svSet, false)
		} else {
			srv = realExecutor("real-executor-set-versions", svSet, true)
		}
		label := fmt.Sprintf("server history: one %s%s serves a client configured with %s and then one configured with %s", srv.name, vstr(svSet), vstr(subset(h.s1)), vstr(subset(h.s2)))
		c.Eval([]byte(label), true)
		rep := map[string]any{"kind": "negotiation-history", "cell": label}
		if _, _, _, pv := c13Dial([]kmipclient.Option{kmipclient.WithKmipVersions(subset(h.s1)...)}, srv); pv != nil {
			c.Violation("panic:server-history", fmt.Sprintf("%s: %v", label, pv), rep)
			return
		}
		adopted, seen, derr, pv := c13Dial([]kmipclient.Option{kmipclient.WithKmipVersions(subset(h.s2)...)}, srv)
		if pv != nil {
			c.Violation("panic:server-history", fmt.Sprintf("%s: %v", label, pv), rep)
			return
		}
		want := maxCommon(subset(h.s2), svSet)
		if !containsV(svSet, kmip.V1_1) && derr != nil {
			return // see the assumption about executors that do not speak 1.1
		}
		switch {
		case want == nil && derr == nil:
			c.Violation("server-history:connected-without-common-version", fmt.Sprintf("%s: second client connected with %v", label, *adopted), rep)
		case want != nil && derr != nil:
			c.Violation("server-history:dial-failed-with-common-version", fmt.Sprintf("%s: second dial failed (%v) although %v is common", label, derr, *want), rep)
		case want != nil && *adopted != *want:
			c.Violation("server-history:not-highest-common", fmt.Sprintf("%s: second client adopted %v, highest common version is %v", label, *adopted, *want), rep)
		case want != nil && (seen == nil || *seen != *adopted):
			c.Violation("follow-up-header-version", fmt.Sprintf("%s: follow-up carried %v", label, seen), rep)
		}
	})
	c.Exhaustive = true
}
