package checks

import (
	"bytes"
	"encoding/hex"
	"fmt"
	"os"
	"path/filepath"
	"reflect"
	"sort"
	"strings"
	"time"
	"unicode/utf8"

	"github.com/ovh/kmip-go"
	"github.com/ovh/kmip-go/ttlv"
	"verifharness/msg"
	"verifharness/refttlv"
	"verifharness/vlib"
)

func init() { All["C18"] = Spec{"exploration", runC18} }

type fullCodec struct {
	name      string
	marshal   func(any) []byte
	unmarshal func([]byte, any) error
}

var fullCodecs = []fullCodec{
	{"ttlv", ttlv.MarshalTTLV, ttlv.UnmarshalTTLV},
	{"xml", ttlv.MarshalXML, ttlv.UnmarshalXML},
	{"json", ttlv.MarshalJSON, ttlv.UnmarshalJSON},
}

func codecByName(n string) fullCodec {
	for _, c := range fullCodecs {
		if c.name == n {
			return c
		}
	}
	panic(n)
}

// textSafe reports whether every decoded text string is representable in XML 1.0 / JSON and every date is in years 1..9999.
func textSafe(v reflect.Value, depth int) bool {
	if depth > 40 || !v.IsValid() {
		return true
	}
	switch v.Kind() {
	case reflect.Pointer, reflect.Interface:
		if v.IsNil() {
			return true
		}
		return textSafe(v.Elem(), depth+1)
	case reflect.String:
		s := v.String()
		if !utf8.ValidString(s) {
			return false
		}
		for _, r := range s {
			if !isXMLChar(r) {
				return false
			}
		}
		return true
	case reflect.Struct:
		if t, ok := v.Interface().(time.Time); ok {
			y := t.UTC().Year()
			return y >= 1 && y <= 9999
		}
		for i := 0; i < v.NumField(); i++ {
			if v.Type().Field(i).IsExported() && !textSafe(v.Field(i), depth+1) {
				return false
			}
		}
	case reflect.Slice:
		if v.Type().Elem().Kind() == reflect.Uint8 {
			return true
		}
		for i := 0; i < v.Len(); i++ {
			if !textSafe(v.Index(i), depth+1) {
				return false
			}
		}
	}
	return true
}

// c18Eval: x accepted by decoder E into target t => fixed point through E and through the two other encodings.
func c18Eval(c *vlib.Check, e fullCodec, fresh func() any, class string, x []byte) (accepted bool) {
	v := fresh()
	var err error
	if pv, _ := vlib.Catch(func() { err = e.unmarshal(append([]byte{}, x...), v) }); pv != nil || err != nil {
		return false // not an accepted input (panics on arbitrary input belong to C02)
	}
	tname := reflect.TypeOf(v).Elem().Name()
	rep := func() map[string]any {
		r := map[string]any{"kind": "input", "codec": e.name, "target": tname, "class": class}
		if e.name == "ttlv" {
			r["hex"] = hex.EncodeToString(x)
		} else {
			r["document"] = short(string(x), 3000)
		}
		return r
	}
	safe := textSafe(reflect.ValueOf(v), 0)
	for _, e2 := range fullCodecs {
		via := "same"
		if e2.name != e.name {
			if !safe {
				continue
			}
			via = "via-" + e2.name
		}
		var y1 []byte
		if pv, site := vlib.Catch(func() { y1 = append([]byte{}, e2.marshal(v)...) }); pv != nil {
			c.Violation(fmt.Sprintf("encode-panic:%s->%s:%s:%s", e.name, e2.name, site, classify(fmt.Sprint(pv))),
				fmt.Sprintf("a value accepted by the %s decoder (class %s) cannot be encoded in %s: panic %v", e.name, class, e2.name, pv), rep())
			continue
		}
		v2 := fresh()
		var err2 error
		if pv, site := vlib.Catch(func() { err2 = e2.unmarshal(append([]byte{}, y1...), v2) }); pv != nil {
			c.Violation(fmt.Sprintf("redecode-panic:%s->%s:%s", e.name, e2.name, site), fmt.Sprintf("re-decoding the %s re-encoding panicked: %v (class %s)", e2.name, pv, class), rep())
			continue
		}
		if err2 != nil {
			r := rep()
			r["reencoded"] = short(string(y1), 2000)
			c.Violation(fmt.Sprintf("reencoding-rejected:%s->%s:%s:%s", e.name, e2.name, tname, ErrClass(err2)),
				fmt.Sprintf("the library accepts the input (%s, class %s) but rejects its own %s re-encoding of it: %v", e.name, class, e2.name, err2), r)
			continue
		}
		var y2 []byte
		if pv, site := vlib.Catch(func() { y2 = e2.marshal(v2) }); pv != nil {
			c.Violation(fmt.Sprintf("encode-panic:%s->%s:%s:%s", e.name, e2.name, site, classify(fmt.Sprint(pv))), fmt.Sprintf("second re-encoding panicked: %v", pv), rep())
			continue
		}
		if !bytes.Equal(y1, y2) {
			r := rep()
			r["first"], r["second"] = short(string(y1), 1500), short(string(y2), 1500)
			if e2.name == "ttlv" {
				r["first"], r["second"] = hex.EncodeToString(y1), hex.EncodeToString(y2)
			}
			c.Violation(fmt.Sprintf("not-a-fixed-point:%s->%s:%s:%s", e.name, e2.name, tname, via), fmt.Sprintf("re-encoding (%s, class %s) in %s is not stable: the second re-encoding differs from the first", e.name, class, e2.name), r)
		}
	}
	return true
}

func runC18(c *vlib.Check) {
	c.Rule = "every input of the C02 corpus (header grammar, single structural deviations of valid encodings incl. non-zero padding / over-long big integers / reordered, duplicated, unknown fields, XML/JSON lexical alternatives: " +
		"hex numbers, numeric enumerations, mixed-case booleans, numbers as strings ...) that a decoder accepts, for the generic value and the message targets, plus requests and responses about 3 operations the library does not model (payload empty / one field / nested empty structure / two fields / absent), plus the OASIS vector messages; " +
		"for each: encode in the same encoding, decode again, encode again (must be identical), and the same through both other encodings when text and dates are representable. distinct = distinct accepted inputs"
	c.Assumptions = []string{"inputs whose decoded text strings are outside the XML 1.0 Char production or whose dates are outside years 1..9999 are only checked in their own encoding"}
	jobs := c02Corpus(c.Thorough())
	// extra lexical alternatives on single items
	extra := []struct{ codec, doc string }{
		{"json", `{"tag":"ActivationDate","type":"Interval","value":-5}`}, {"json", `{"tag":"LeaseTime","type":"Interval","value":4294967296}`},
		{"json", `{"tag":"LeaseTime","type":"Interval","value":"0x10"}`}, {"json", `{"tag":"LeaseTime","type":"Interval","value":"16"}`},
		{"json", `{"tag":"ActivationDate","type":"DateTime","value":"0x10"}`}, {"json", `{"tag":"ActivationDate","type":"DateTime","value":"2001-01-01T00:00:00+14:00"}`},
		{"json", `{"tag":"Fresh","type":"Boolean","value":"0x1"}`}, {"json", `{"tag":"Fresh","type":"Boolean","value":"0"}`},
		{"json", `{"tag":"CryptographicLength","type":"Integer","value":"0x7FFFFFFF"}`}, {"json", `{"tag":"CryptographicLength","type":"Integer","value":"0xFFFFFFFF"}`},
		{"json", `{"tag":"UsageLimitsTotal","type":"LongInteger","value":"0xFFFFFFFFFFFFFFFF"}`}, {"json", `{"tag":"UsageLimitsTotal","type":"LongInteger","value":9007199254740993}`},
		{"json", `{"tag":"Q","type":"BigInteger","value":"0x00"}`}, {"json", `{"tag":"Q","type":"BigInteger","value":"0xFF"}`}, {"json", `{"tag":"Q","type":"BigInteger","value":"0x0000000000000000FF"}`},
		{"json", `{"tag":"Q","type":"BigInteger","value":-12}`}, {"json", `{"tag":"Q","type":"BigInteger","value":"0x"}`},
		{"json", `{"tag":"Operation","type":"Enumeration","value":1}`}, {"json", `{"tag":"Operation","type":"Enumeration","value":"1"}`}, {"json", `{"tag":"Operation","type":"Enumeration","value":"0x00000001"}`},
		{"json", `{"tag":"CryptographicUsageMask","type":"Integer","value":"Sign|0x00000002"}`}, {"json", `{"tag":"CryptographicUsageMask","type":"Integer","value":" Sign | Verify "}`},
		{"json", `{"tag":"0x420001","type":"DateTime","value":"1970-01-01T00:00:00Z"}`}, {"json", `{"tag":"0x42FFFF","type":"Integer","value":1}`},
		{"xml", `<Fresh type="Boolean" value="TRUE"/>`}, {"xml", `<Fresh type="Boolean" value="1"/>`}, {"xml", `<Fresh type="Boolean" value="t"/>`},
		{"xml", `<Q type="BigInteger" value="ff"/>`}, {"xml", `<Q type="BigInteger" value="00000000000000FF"/>`}, {"xml", `<Q type="BigInteger" value=""/>`},
		{"xml", `<Operation type="Enumeration" value="1"/>`}, {"xml", `<Operation type="Enumeration" value="0x1"/>`},
		{"xml", `<CryptographicLength type="Integer" value="0x10"/>`}, {"xml", `<CryptographicLength type="Integer" value="+5"/>`},
		{"xml", `<LeaseTime type="Interval" value="0x10"/>`}, {"xml", `<LeaseTime type="Interval" value="4294967295"/>`},
		{"xml", `<ActivationDate type="DateTime" value="2001-01-01T00:00:00.5Z"/>`}, {"xml", `<ActivationDate type="DateTime" value="2001-01-01T00:00:00-11:30"/>`},
		{"xml", `<CryptographicUsageMask type="Integer" value="Sign Verify 0x00000004 8"/>`}, {"xml", `<TTLV tag="0x420001" type="Integer" value="1"/>`},
		{"xml", `<UniqueIdentifier type="TextString" value="a&#x9;b&#xA;c"/>`}, {"xml", `<KeyMaterial type="ByteString" value="abcdef"/>`},
	}
	for _, x := range extra {
		jobs = append(jobs, job{"lexical-alternative", []byte(x.doc), x.codec, []int{0}})
	}
	// messages about operations this library does not model (not produced by any encoder of this library): the payload is
	// kept as an opaque structure; payload shapes: empty, one field, nested empty structure, two fields; responses also without payload
	{
		codes := []uint32{0x50, 0x80000001}
		for code := uint32(1); code < 0x30; code++ { // first named-but-unimplemented operation
			if _, ok := msg.PayloadTypes[kmip.Operation(code)]; !ok {
				codes = append(codes, code)
				break
			}
		}
		shapes := func(tag uint32) []*refttlv.Node {
			return []*refttlv.Node{nil, nStruct(tag), nStruct(tag, nText(tg("UniqueIdentifier"), "id")), nStruct(tag, nStruct(tg("TemplateAttribute"))),
				nStruct(tag, nText(tg("UniqueIdentifier"), ""), nEnum(tg("ObjectType"), 2))}
		}
		for _, code := range codes {
			for _, resp := range []bool{false, true} {
				plTag := tg("RequestPayload")
				if resp {
					plTag = tg("ResponsePayload")
				}
				for _, sh := range shapes(plTag) {
					kids := []*refttlv.Node{nEnum(tg("Operation"), code)}
					if resp {
						kids = append(kids, nEnum(tg("ResultStatus"), 0))
					}
					if sh != nil {
						kids = append(kids, sh)
					} else if !resp {
						continue // a request always carries a payload
					}
					tree := message(resp, nStruct(tg("BatchItem"), kids...))
					target := 1
					if resp {
						target = 2
					}
					if decTargets[target].name != map[bool]string{false: "RequestMessage", true: "ResponseMessage"}[resp] {
						panic("c18: decTargets order changed: " + decTargets[target].name)
					}
					for _, e := range c06encs {
						jobs = append(jobs, job{"unmodelled-operation", e.write(tree), e.name, []int{target}})
					}
				}
			}
		}
	}
	var accepted int64
	vlib.Parallel(len(jobs), 0, func(i int) {
		j := jobs[i]
		e := codecByName(j.codec)
		for _, ti := range j.target {
			if ti > 2 {
				continue // generic value and the two message types
			}
			if c18Eval(c, e, decTargets[ti].fresh, j.class, j.data) {
				c.Eval(append([]byte(e.name+decTargets[ti].name), j.data...), true)
				c.Mu(func() { accepted++ })
				if i%30011 == 0 {
					c.Sample(map[string]any{"codec": j.codec, "class": j.class, "target": decTargets[ti].name, "input": short(hex.EncodeToString(j.data), 200)})
				}
			} else {
				c.Mu(func() { c.Evaluations++ })
			}
		}
	})
	// vectors
	root := filepath.Join(repoRoot(), "kmiptest", "testdata")
	files, _ := filepath.Glob(filepath.Join(root, "*", "*.xml"))
	sort.Strings(files)
	vlib.Parallel(len(files), 0, func(fi int) {
		b, err := os.ReadFile(files[fi])
		if err != nil {
			return
		}
		b = c04NowRe.ReplaceAll(b, []byte(`"2023-11-14T22:13:20Z"`))
		b = c04VarRe.ReplaceAll(b, []byte(`"DEADBEEFCAFE"`))
		for idx, el := range splitTopLevel(b) {
			fresh := func() any { return &kmip.RequestMessage{} }
			if strings.HasPrefix(string(el), "<ResponseMessage>") {
				fresh = func() any { return &kmip.ResponseMessage{} }
			}
			if c18Eval(c, codecByName("xml"), fresh, fmt.Sprintf("vector %s#%d", filepath.Base(files[fi]), idx), el) {
				c.Eval(el, true)
				c.Mu(func() { accepted++ })
			}
		}
	})
	c.Extra["accepted_inputs"] = accepted
	c.Sample(map[string]any{"codec": "json", "class": "lexical-alternative", "input": extra[0].doc})
	c.Exhaustive = true
}
