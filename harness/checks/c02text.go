package checks

import (
	"fmt"
	"math/big"
	"strings"

	"github.com/ovh/kmip-go"
	"verifharness/msg"
	"verifharness/reftext"
	"verifharness/refttlv"
)

// tnode is a text-level view of a TTLV item whose XML / JSON rendering can be deviated per node.
type tnode struct {
	n    *refttlv.Node
	kids []*tnode
}

func toT(n *refttlv.Node) *tnode {
	t := &tnode{n: n}
	for _, k := range n.Kids {
		t.kids = append(t.kids, toT(k))
	}
	return t
}

func (t *tnode) count() int {
	c := 1
	for _, k := range t.kids {
		c += k.count()
	}
	return c
}

// structMut returns a copy of the tree in which the node with preorder index `at` (never the root) is deleted, duplicated,
// swapped with its next sibling, or - a structure - emptied. ok is false when the mutation does not apply there.
func structMut(root *tnode, at int, kind string) (*tnode, bool) {
	idx := 0
	ok := false
	var cp func(t *tnode) *tnode
	cp = func(t *tnode) *tnode {
		n := &tnode{n: t.n}
		for i := 0; i < len(t.kids); i++ {
			idx++
			me := idx
			k := t.kids[i]
			if me != at {
				n.kids = append(n.kids, cp(k))
				continue
			}
			switch kind {
			case "delete":
				idx += k.count() - 1
				ok = true
			case "dup":
				c1 := cp(k)
				n.kids = append(n.kids, c1, c1)
				ok = true
			case "swap":
				if i+1 < len(t.kids) {
					c1 := cp(k)
					idx++
					c2 := cp(t.kids[i+1])
					n.kids = append(n.kids, c2, c1)
					i++
					ok = true
				} else {
					n.kids = append(n.kids, cp(k))
				}
			case "empty":
				if len(k.kids) > 0 {
					idx += k.count() - 1
					n.kids = append(n.kids, &tnode{n: k.n})
					ok = true
				} else {
					n.kids = append(n.kids, cp(k))
				}
			}
		}
		return n
	}
	r := cp(root)
	return r, ok
}

var typeNameList = []string{"Structure", "Integer", "LongInteger", "BigInteger", "Enumeration", "Boolean", "TextString", "ByteString", "DateTime", "Interval"}

var lexAlternatives = []string{"", "0x", "0xZZ", "0xABC", "-1", "9223372036854775808", "1.5", "TRUE", "True", "1", "NoSuchName", "Sign||Verify", "Sign | Verify", "|Sign", "Sign| |Verify", " ", "0x80000000", "2023-13-45T99:99:99Z", "+5", " 7", "1e3"}

// xmlDoc renders the tree; at node index `at` the mutation `mut` (if any) is applied. Returns the doc and whether the mutation applied.
func xmlDoc(root *tnode, at int, mut string) ([]byte, bool) {
	var sb strings.Builder
	idx := 0
	applied := false
	var w func(t *tnode, ind int)
	w = func(t *tnode, ind int) {
		me := idx
		idx++
		name := msg.TagName(t.n.Tag)
		attrs := ""
		if strings.HasPrefix(name, "0x") {
			attrs = fmt.Sprintf(` tag="%s"`, name)
			name = "TTLV"
		}
		ty := typeNameList[t.n.Type-1]
		val := reftext.ScalarText(t.n)
		hasType, hasVal := t.n.Type != refttlv.TStructure, t.n.Type != refttlv.TStructure
		if me == at {
			switch {
			case strings.HasPrefix(mut, "type="):
				ty, hasType, applied = mut[5:], true, true
			case mut == "notype":
				if hasType {
					hasType, applied = false, true
				}
			case strings.HasPrefix(mut, "value="):
				if hasVal {
					val, applied = mut[6:], true
				}
			case mut == "novalue":
				if hasVal {
					hasVal, applied = false, true
				}
			case mut == "unknown-element":
				name, attrs, applied = "NoSuchElementName", "", true
			case mut == "tag-attr-garbage":
				name, attrs, applied = "TTLV", ` tag="0xZZZZZZ"`, true
			case mut == "text-content":
				applied = true
			}
		}
		pad := strings.Repeat(" ", ind)
		sb.WriteString(pad + "<" + name + attrs)
		if hasType {
			sb.WriteString(` type="` + ty + `"`)
		}
		if hasVal {
			sb.WriteString(` value="` + xmlEsc(val) + `"`)
		}
		if len(t.kids) == 0 && !(me == at && mut == "text-content") {
			sb.WriteString("/>\n")
			return
		}
		sb.WriteString(">\n")
		if me == at && mut == "text-content" {
			sb.WriteString("some text &amp; more\n")
		}
		for _, k := range t.kids {
			w(k, ind+1)
		}
		sb.WriteString(pad + "</" + name + ">\n")
	}
	w(root, 0)
	return []byte(sb.String()), applied
}

func xmlEsc(s string) string {
	return strings.NewReplacer("&", "&amp;", "<", "&lt;", ">", "&gt;", `"`, "&quot;").Replace(s)
}

func jsonDoc(root *tnode, at int, mut string) ([]byte, bool) {
	var sb strings.Builder
	idx := 0
	applied := false
	q := func(s string) string { return `"` + strings.NewReplacer(`\`, `\\`, `"`, `\"`).Replace(s) + `"` }
	var w func(t *tnode)
	w = func(t *tnode) {
		me := idx
		idx++
		tag := q(msg.TagName(t.n.Tag))
		ty := typeNameList[t.n.Type-1]
		hasType := t.n.Type != refttlv.TStructure
		var val string
		switch t.n.Type {
		case refttlv.TStructure:
			val = "" // array written below
		case refttlv.TInteger, refttlv.TLongInteger, refttlv.TInterval:
			val = reftext.ScalarText(t.n)
		case refttlv.TBoolean:
			val = reftext.ScalarText(t.n)
		case refttlv.TBigInteger:
			val = q("0x" + reftext.ScalarText(t.n))
		default:
			val = q(reftext.ScalarText(t.n))
		}
		hasVal := true
		nodeRaw := ""
		if me == at {
			switch {
			case strings.HasPrefix(mut, "type="):
				ty, hasType, applied = mut[5:], true, true
			case mut == "notype":
				if hasType {
					hasType, applied = false, true
				}
			case strings.HasPrefix(mut, "value="):
				if t.n.Type != refttlv.TStructure {
					val, applied = q(mut[6:]), true
				}
			case strings.HasPrefix(mut, "rawvalue="):
				val, applied = mut[9:], true
			case mut == "novalue":
				hasVal, applied = false, true
			case mut == "tag-number":
				tag, applied = "4325377", true
			case mut == "tag-null":
				tag, applied = "null", true
			case mut == "tag-unknown":
				tag, applied = q("NoSuchTagName"), true
			case mut == "type-number":
				ty, applied = "", true
			case strings.HasPrefix(mut, "node="):
				nodeRaw, applied = mut[5:], true
			}
		}
		if nodeRaw != "" {
			sb.WriteString(nodeRaw)
			// still consume the indexes of the subtree
			var skip func(t *tnode)
			skip = func(t *tnode) {
				for _, k := range t.kids {
					idx++
					skip(k)
				}
			}
			skip(t)
			return
		}
		sb.WriteString(`{"tag": ` + tag)
		if hasType {
			if me == at && mut == "type-number" {
				sb.WriteString(`, "type": 7`)
			} else {
				sb.WriteString(`, "type": ` + q(ty))
			}
		}
		if hasVal {
			sb.WriteString(`, "value": `)
			if t.n.Type == refttlv.TStructure && !(me == at && strings.HasPrefix(mut, "rawvalue=")) {
				sb.WriteString("[")
				for i, k := range t.kids {
					if i > 0 {
						sb.WriteString(", ")
					}
					w(k)
				}
				sb.WriteString("]")
			} else {
				sb.WriteString(val)
				if t.n.Type == refttlv.TStructure {
					var skip func(t *tnode)
					skip = func(t *tnode) {
						for _, k := range t.kids {
							idx++
							skip(k)
						}
					}
					skip(t)
				}
			}
		}
		sb.WriteString("}")
	}
	w(root)
	return []byte(sb.String()), applied
}

// c02TextJobs emits the XML / JSON documents of (iii).
func c02TextJobs(thorough bool, emit func(codec, class string, doc []byte, targets []int)) {
	proj := &msg.Projector{Ver: [2]int{1, 4}, Gate: true}
	type base struct {
		tree    *refttlv.Node
		targets []int
	}
	var bases []base
	ops := []kmip.Operation{kmip.OperationGet, kmip.OperationRegister, kmip.OperationCreate, kmip.OperationLocate}
	if thorough {
		ops = msg.Operations()
	}
	for _, op := range ops {
		t, _ := proj.Project(msg.BaselineRequest(op, kmip.V1_4))
		bases = append(bases, base{t, []int{0, 1}})
		t, _ = proj.Project(msg.BaselineResponse(op, kmip.V1_4))
		bases = append(bases, base{t, []int{0, 2}})
	}
	for i, a := range append(msg.StdAttributes(), msg.CustomAttributes()...) {
		// quick: every fourth attribute, and every attribute whose value is a bit mask (their text forms have a reader of their own)
		_, isUsage := a.AttributeValue.(kmip.CryptographicUsageMask)
		_, isStorage := a.AttributeValue.(kmip.StorageStatusMask)
		if !thorough && i%4 != 0 && !isUsage && !isStorage {
			continue
		}
		a := a
		t, _ := proj.Project(&a)
		bases = append(bases, base{t, []int{0, 7}})
	}
	for i, kb := range msg.KeyBlocks() {
		if !thorough && i%3 != 0 {
			continue
		}
		kb := kb
		t, _ := proj.Project(&kb)
		bases = append(bases, base{t, []int{0, 8}})
	}
	// one leaf of each kind directly
	for _, l := range []*refttlv.Node{
		{Tag: 0x42000B, Type: refttlv.TInteger, I: 5}, {Tag: 0x42000B, Type: refttlv.TLongInteger, I: 5}, {Tag: 0x42000B, Type: refttlv.TBigInteger, Big: bigOne()},
		{Tag: 0x42005C, Type: refttlv.TEnumeration, I: 1}, {Tag: 0x42000B, Type: refttlv.TBoolean, I: 1}, {Tag: 0x42000B, Type: refttlv.TTextString, S: []byte("t")},
		{Tag: 0x42000B, Type: refttlv.TByteString, S: []byte{1}}, {Tag: 0x42000B, Type: refttlv.TDateTime, I: 1700000000}, {Tag: 0x42000B, Type: refttlv.TInterval, I: 5},
		{Tag: 0x42002C, Type: refttlv.TInteger, I: 3},
	} {
		bases = append(bases, base{l, []int{0}})
	}
	var xmlMuts, jsonMuts []string
	for _, tn := range typeNameList {
		xmlMuts = append(xmlMuts, "type="+tn)
		jsonMuts = append(jsonMuts, "type="+tn)
	}
	xmlMuts = append(xmlMuts, "type=NoSuchType", "type=", "notype", "novalue", "unknown-element", "tag-attr-garbage", "text-content")
	jsonMuts = append(jsonMuts, "type=NoSuchType", "type=", "notype", "novalue", "tag-number", "tag-null", "tag-unknown", "type-number")
	for _, l := range lexAlternatives {
		xmlMuts = append(xmlMuts, "value="+l)
		jsonMuts = append(jsonMuts, "value="+l)
	}
	for _, raw := range []string{"null", "true", "12", "-5", "1.5", "1e400", `"str"`, "[]", "[1]", "{}", `{"tag":"Operation"}`, "4294967296", "-9223372036854775809"} {
		jsonMuts = append(jsonMuts, "rawvalue="+raw, "node="+raw)
	}
	for _, b := range bases {
		root := toT(b.tree)
		n := root.count()
		plainX, _ := xmlDoc(root, -1, "")
		plainJ, _ := jsonDoc(root, -1, "")
		emit("xml", "xml:valid", plainX, b.targets)
		emit("json", "json:valid", plainJ, b.targets)
		for at := 0; at < n; at++ {
			for _, m := range xmlMuts {
				if d, ok := xmlDoc(root, at, m); ok {
					emit("xml", "xml:"+mutClass(m), d, b.targets)
				}
			}
			for _, m := range jsonMuts {
				if d, ok := jsonDoc(root, at, m); ok {
					emit("json", "json:"+mutClass(m), d, b.targets)
				}
			}
		}
		// structural deviations: an element missing, repeated, out of order, or a structure without content
		for at := 1; at < n; at++ {
			for _, kind := range []string{"delete", "dup", "swap", "empty"} {
				if mt, ok := structMut(root, at, kind); ok {
					dx, _ := xmlDoc(mt, -1, "")
					dj, _ := jsonDoc(mt, -1, "")
					emit("xml", "xml:struct-"+kind, dx, b.targets)
					emit("json", "json:struct-"+kind, dj, b.targets)
				}
			}
		}
		if n <= 40 || thorough {
			for cut := 0; cut < len(plainX); cut++ {
				emit("xml", "xml:truncate", plainX[:cut], b.targets)
			}
			for cut := 0; cut < len(plainJ); cut++ {
				emit("json", "json:truncate", plainJ[:cut], b.targets)
			}
		}
	}
	for _, raw := range []string{"", " ", "null", "true", "12", `"s"`, "[]", "[{}]", "{}", `{"tag": 5}`, `{"value": []}`, "<", "<a", "<a/>", "<a></b>", "not xml", "<?xml version=\"1.0\"?>", "<TTLV/>", `<TTLV tag="0x420001"/>`} {
		emit("xml", "xml:root", []byte(raw), []int{0, 1, 7})
		emit("json", "json:root", []byte(raw), []int{0, 1, 7})
	}
}

func mutClass(m string) string {
	if i := strings.Index(m, "="); i >= 0 {
		return m[:i]
	}
	return m
}

func bigOne() *big.Int { return big.NewInt(-129) }
