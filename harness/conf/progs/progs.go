// Package progs holds micro-programs written against plain Go concurrency primitives. They are compiled twice:
// as they are (free run on the real runtime) and through the instrumenter (exhaustive run under the mc shims);
// the outcomes of both runs are compared to bind the shim semantics to Go's.
package progs

import (
	"context"
	"errors"
	"fmt"
	"sync"
	"sync/atomic"
	"time"
)

type Prog struct {
	Name    string
	Run     func() string
	Allowed []string
}

func catch(f func() string) (out string) {
	defer func() {
		if r := recover(); r != nil {
			out = fmt.Sprint("panic: ", r)
		}
	}()
	return f()
}

var All = []Prog{
	{"rendezvous", func() string {
		c := make(chan int)
		go func() { c <- 1 }()
		return fmt.Sprint(<-c)
	}, []string{"1"}},
	{"buffered-order", func() string {
		c := make(chan int, 2)
		c <- 1
		c <- 2
		return fmt.Sprint(<-c, <-c)
	}, []string{"1 2"}},
	{"buffered-blocks-when-full", func() string {
		c := make(chan int, 1)
		done := make(chan string)
		go func() { c <- 1; c <- 2; done <- "sent" }()
		a := <-c
		b := <-c
		return fmt.Sprint(a, b, <-done)
	}, []string{"1 2sent"}},
	{"recv-from-closed", func() string {
		c := make(chan int)
		close(c)
		v, ok := <-c
		return fmt.Sprint(v, ok)
	}, []string{"0 false"}},
	{"closed-buffered-drains-first", func() string {
		c := make(chan int, 2)
		c <- 7
		close(c)
		v1, ok1 := <-c
		v2, ok2 := <-c
		return fmt.Sprint(v1, ok1, v2, ok2)
	}, []string{"7 true 0 false"}},
	{"select-two-ready", func() string {
		a, b := make(chan int, 1), make(chan int, 1)
		a <- 1
		b <- 2
		select {
		case v := <-a:
			return fmt.Sprint("a", v)
		case v := <-b:
			return fmt.Sprint("b", v)
		}
	}, []string{"a1", "b2"}},
	{"select-default", func() string {
		a := make(chan int)
		select {
		case <-a:
			return "a"
		default:
			return "default"
		}
	}, []string{"default"}},
	{"select-nil-never-ready", func() string {
		var a chan int
		b := make(chan int, 1)
		b <- 5
		select {
		case <-a:
			return "nil"
		case v := <-b:
			return fmt.Sprint("b", v)
		}
	}, []string{"b5"}},
	{"send-on-closed-panics", func() string {
		return catch(func() string {
			c := make(chan int, 1)
			close(c)
			c <- 1
			return "sent"
		})
	}, []string{"panic: send on closed channel"}},
	{"close-closed-panics", func() string {
		return catch(func() string {
			c := make(chan int)
			close(c)
			close(c)
			return "closed twice"
		})
	}, []string{"panic: close of closed channel"}},
	{"close-nil-panics", func() string {
		return catch(func() string {
			var c chan int
			close(c)
			return "closed nil"
		})
	}, []string{"panic: close of nil channel"}},
	{"select-send-on-closed-panics-or-other", func() string {
		return catch(func() string {
			c := make(chan int)
			d := make(chan int, 1)
			d <- 1
			close(c)
			select {
			case c <- 1:
				return "sent"
			case <-d:
				return "d"
			}
		})
	}, []string{"panic: send on closed channel", "d"}},
	{"closed-in-select-is-ready", func() string {
		c := make(chan int)
		d := make(chan int)
		close(c)
		select {
		case _, ok := <-c:
			return fmt.Sprint("c", ok)
		case <-d:
			return "d"
		}
	}, []string{"cfalse"}},
	{"two-senders-one-receiver", func() string {
		c := make(chan string)
		go func() { c <- "a" }()
		go func() { c <- "b" }()
		return <-c + <-c
	}, []string{"ab", "ba"}},
	{"close-wakes-receivers", func() string {
		c := make(chan int)
		out := make(chan string, 2)
		for i := 0; i < 2; i++ {
			go func() { _, ok := <-c; out <- fmt.Sprint(ok) }()
		}
		close(c)
		return <-out + <-out
	}, []string{"falsefalse"}},
	{"ctx-cancel-propagates", func() string {
		p, cancel := context.WithCancel(context.Background())
		ch, cancel2 := context.WithCancel(p)
		defer cancel2()
		cancel()
		<-ch.Done()
		return fmt.Sprint(ch.Err(), p.Err())
	}, []string{"context canceled context canceled"}},
	{"ctx-child-cancel-does-not-reach-parent", func() string {
		p, cancel := context.WithCancel(context.Background())
		defer cancel()
		ch, cancel2 := context.WithCancel(p)
		cancel2()
		<-ch.Done()
		select {
		case <-p.Done():
			return "parent cancelled"
		default:
			return fmt.Sprint("parent alive ", p.Err())
		}
	}, []string{"parent alive <nil>"}},
	{"ctx-cause", func() string {
		p, cancel := context.WithCancelCause(context.Background())
		ch, cancel2 := context.WithCancel(p)
		defer cancel2()
		cancel(errors.New("boom"))
		<-ch.Done()
		return fmt.Sprint(context.Cause(p), "/", context.Cause(ch), "/", ch.Err())
	}, []string{"boom/boom/context canceled"}},
	{"ctx-cause-first-wins", func() string {
		p, cancel := context.WithCancelCause(context.Background())
		cancel(errors.New("first"))
		cancel(errors.New("second"))
		return fmt.Sprint(context.Cause(p))
	}, []string{"first"}},
	{"ctx-created-from-cancelled-parent", func() string {
		p, cancel := context.WithCancel(context.Background())
		cancel()
		ch, cancel2 := context.WithCancel(p)
		defer cancel2()
		select {
		case <-ch.Done():
			return "done"
		default:
			return "not done"
		}
	}, []string{"done"}},
	{"ctx-done-vs-value", func() string {
		ctx, cancel := context.WithCancel(context.Background())
		c := make(chan int, 1)
		go func() { c <- 1 }()
		go cancel()
		select {
		case <-ctx.Done():
			return "done"
		case <-c:
			return "value"
		}
	}, []string{"done", "value"}},
	{"ctx-timeout-or-finish", func() string {
		ctx, cancel := context.WithTimeout(context.Background(), time.Millisecond)
		defer cancel()
		c := make(chan int, 1)
		c <- 1
		select {
		case <-ctx.Done():
			return fmt.Sprint(ctx.Err())
		case <-c:
			return "value"
		}
	}, []string{"context deadline exceeded", "value"}},
	{"waitgroup", func() string {
		var wg sync.WaitGroup
		var n atomic.Int32
		for i := 0; i < 2; i++ {
			wg.Add(1)
			go func() { defer wg.Done(); n.Add(1) }()
		}
		wg.Wait()
		return fmt.Sprint(n.Load())
	}, []string{"2"}},
	{"waitgroup-negative-panics", func() string {
		return catch(func() string {
			var wg sync.WaitGroup
			wg.Done()
			return "ok"
		})
	}, []string{"panic: sync: negative WaitGroup counter"}},
	{"mutex-counter", func() string {
		var mu sync.Mutex
		n := 0
		var wg sync.WaitGroup
		for i := 0; i < 2; i++ {
			wg.Add(1)
			go func() { defer wg.Done(); mu.Lock(); n++; mu.Unlock() }()
		}
		wg.Wait()
		return fmt.Sprint(n)
	}, []string{"2"}},
	{"atomic-bool-swap-one-winner", func() string {
		var b atomic.Bool
		out := make(chan bool, 2)
		for i := 0; i < 2; i++ {
			go func() { out <- b.Swap(true) }()
		}
		x, y := <-out, <-out
		return fmt.Sprint(x != y)
	}, []string{"true"}},
	{"atomic-value", func() string {
		var v atomic.Value
		a := fmt.Sprint(v.Load())
		v.Store(1)
		old := v.Swap(2)
		return fmt.Sprint(a, old, v.Load())
	}, []string{"<nil>1 2"}},
	{"atomic-value-store-nil-panics", func() string {
		return catch(func() string {
			var v atomic.Value
			v.Store(nil)
			return "stored"
		})
	}, []string{"panic: sync/atomic: store of nil value into Value"}},
	{"atomic-value-inconsistent-type-panics", func() string {
		return catch(func() string {
			var v atomic.Value
			v.Store(1)
			v.Store("s")
			return "stored"
		})
	}, []string{"panic: sync/atomic: store of inconsistently typed value into Value"}},
	{"atomic-value-typed-nil-chan-swap", func() string {
		var v atomic.Value
		v.Store(make(chan int))
		old := v.Swap(chan int(nil))
		cur := v.Load()
		return fmt.Sprint(old != nil && old != chan int(nil), cur == chan int(nil))
	}, []string{"true true"}},
	{"afterfunc-stop-or-fire", func() string {
		fired := make(chan string, 1)
		t := time.AfterFunc(time.Microsecond, func() { fired <- "fired" })
		if t.Stop() {
			return "stopped"
		}
		return <-fired
	}, []string{"stopped", "fired"}},
	{"once", func() string {
		var o sync.Once
		n := 0
		var wg sync.WaitGroup
		for i := 0; i < 2; i++ {
			wg.Add(1)
			go func() { defer wg.Done(); o.Do(func() { n++ }) }()
		}
		wg.Wait()
		return fmt.Sprint(n)
	}, []string{"1"}},
	{"unbuffered-send-blocks-until-recv", func() string {
		c := make(chan int)
		var stage atomic.Int32
		go func() { c <- 1; stage.Store(2) }()
		select {
		case c <- 9:
			return "self-send"
		default:
		}
		v := <-c
		return fmt.Sprint(v)
	}, []string{"1"}},
	{"select-send-and-recv-pair", func() string {
		c := make(chan int)
		res := make(chan string, 2)
		f := func(id string) {
			select {
			case c <- 1:
				res <- id + "s"
			case <-c:
				res <- id + "r"
			}
		}
		go f("a")
		go f("b")
		x, y := <-res, <-res
		if x > y {
			x, y = y, x
		}
		return x + y
	}, []string{"arbs", "asbr"}},
	{"pool-get-new-when-empty", func() string {
		p := sync.Pool{New: func() any { return new(int) }}
		a := p.Get().(*int)
		*a = 5
		b := p.Get().(*int)
		return fmt.Sprint(*a, *b, a != b)
	}, []string{"5 0 true"}},
	{"pool-put-then-get", func() string {
		// the runtime may hand the item back or (after a collection) allocate a new one: both are allowed
		p := sync.Pool{New: func() any { return new(int) }}
		a := p.Get().(*int)
		*a = 7
		p.Put(a)
		b := p.Get().(*int)
		return fmt.Sprint(*b)
	}, []string{"7", "0"}},
	{"ctx-afterfunc-runs-after-cancel", func() string {
		ctx, cancel := context.WithCancel(context.Background())
		ran := make(chan string, 1)
		context.AfterFunc(ctx, func() { ran <- "ran:" + fmt.Sprint(ctx.Err()) })
		cancel()
		return <-ran
	}, []string{"ran:context canceled"}},
	{"ctx-afterfunc-stopped-before-cancel", func() string {
		ctx, cancel := context.WithCancel(context.Background())
		var n atomic.Int32
		stop := context.AfterFunc(ctx, func() { n.Add(1) })
		first := stop()
		cancel()
		second := stop()
		return fmt.Sprint(first, second, n.Load())
	}, []string{"true false 0"}},
	{"ctx-afterfunc-stop-races-with-cancel", func() string {
		ctx, cancel := context.WithCancel(context.Background())
		ran := make(chan struct{}, 1)
		stop := context.AfterFunc(ctx, func() { ran <- struct{}{} })
		go cancel()
		if stop() {
			return "stopped"
		}
		<-ran
		return "ran"
	}, []string{"stopped", "ran"}},
	{"pool-without-new", func() string {
		var p sync.Pool
		return fmt.Sprint(p.Get())
	}, []string{"<nil>"}},
	{"cond-signal-wakes-waiter", func() string {
		var mu sync.Mutex
		c := sync.NewCond(&mu)
		ready := false
		done := make(chan string)
		go func() {
			mu.Lock()
			for !ready {
				c.Wait()
			}
			mu.Unlock()
			done <- "woken"
		}()
		mu.Lock()
		ready = true
		c.Signal()
		mu.Unlock()
		return <-done
	}, []string{"woken"}},
	{"cond-broadcast-wakes-all", func() string {
		var mu sync.Mutex
		c := sync.NewCond(&mu)
		ready := false
		var wg sync.WaitGroup
		n := 0
		for i := 0; i < 2; i++ {
			wg.Add(1)
			go func() {
				defer wg.Done()
				mu.Lock()
				for !ready {
					c.Wait()
				}
				n++
				mu.Unlock()
			}()
		}
		mu.Lock()
		ready = true
		c.Broadcast()
		mu.Unlock()
		wg.Wait()
		return fmt.Sprint(n)
	}, []string{"2"}},
	{"oncevalue-computed-once", func() string {
		n := 0
		f := sync.OnceValue(func() int { n++; return 40 + n })
		var wg sync.WaitGroup
		for i := 0; i < 2; i++ {
			wg.Add(1)
			go func() { defer wg.Done(); _ = f() }()
		}
		wg.Wait()
		return fmt.Sprint(f(), n)
	}, []string{"41 1"}},
}
