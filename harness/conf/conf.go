//go:build verifmc

// Package conf runs the micro-programs under the mc shims (the progs package is instrumented through the overlay).
package conf

import (
	"sort"

	mc "github.com/ovh/kmip-go/zz_verif/mc"
	"verifharness/conf/progs"
)

// ShimOutcomes explores every schedule of a program (preemption bound 6) and returns the set of outcomes.
func ShimOutcomes(p progs.Prog) (outs []string, execs int64, fatal []string) {
	set := map[string]bool{}
	r := mc.Explore(mc.Config{PreBound: 6, FaultBound: 2, MaxSteps: 2000}, func() {
		out := p.Run()
		mc.Note("out", out)
	}, func(x *mc.Exec) ([]mc.Finding, string) {
		if o, ok := x.Notes["out"]; ok && !x.WasCut {
			set[o] = true
		}
		for _, pn := range x.Panics {
			set["panic: "+pn.Value] = true
		}
		for _, b := range x.Blocked {
			if b.Thread == "main" {
				set["deadlock:"+b.Op] = true
			}
		}
		return nil, "x"
	})
	for o := range set {
		outs = append(outs, o)
	}
	sort.Strings(outs)
	return outs, r.Execs, r.Fatal
}
