// Package reftext reads and writes the KMIP XML and JSON text encodings of TTLV independently of the library
// (stdlib encoding/xml and encoding/json as parsers, own value lexers, names from the pinned registry).
package reftext

import (
	"bytes"
	"encoding/hex"
	"encoding/json"
	"encoding/xml"
	"fmt"
	"io"
	"math/big"
	"strconv"
	"strings"
	"sync"
	"time"

	"verifharness/pinned"
	"verifharness/refttlv"
)

type N = refttlv.Node

var typeNames = map[byte]string{1: "Structure", 2: "Integer", 3: "LongInteger", 4: "BigInteger", 5: "Enumeration", 6: "Boolean", 7: "TextString", 8: "ByteString", 9: "DateTime", 10: "Interval"}
var typeByName = func() map[string]byte {
	m := map[string]byte{}
	for k, v := range typeNames {
		m[v] = k
	}
	return m
}()

var tagName map[uint32]string
var tagNameOnce sync.Once

func nameOf(tag uint32) (string, bool) {
	tagNameOnce.Do(func() {
		m := map[uint32]string{}
		for n, v := range pinned.Reg().Tags {
			m[uint32(v)] = n
		}
		tagName = m
	})
	n, ok := tagName[tag]
	return n, ok
}

func tagOf(name string) (uint32, error) {
	if strings.HasPrefix(name, "0x") {
		v, err := strconv.ParseUint(name[2:], 16, 32)
		return uint32(v), err
	}
	if v, ok := pinned.Reg().Tags[name]; ok {
		return uint32(v), nil
	}
	return 0, fmt.Errorf("unknown tag name %q", name)
}

// enumScope returns the enumeration (by tag name) that governs the values of an element; for AttributeValue the
// scope comes from the attribute's name ("Cryptographic Algorithm" -> CryptographicAlgorithm).
func enumScope(elem string, attrName string) string {
	if elem != "AttributeValue" {
		return elem
	}
	s := strings.NewReplacer(" ", "", ".", "_", "#", "_").Replace(attrName)
	return s
}

func lookupEnum(scope, val string) (uint32, error) {
	if strings.HasPrefix(val, "0x") {
		v, err := strconv.ParseUint(val[2:], 16, 32)
		return uint32(v), err
	}
	if v, err := strconv.ParseUint(val, 10, 32); err == nil {
		return uint32(v), nil
	}
	if e, ok := pinned.Reg().Enums[scope]; ok {
		if v, ok := e[val]; ok {
			return v, nil
		}
	}
	// some elements borrow another enumeration (MaskGeneratorHashingAlgorithm uses Hashing Algorithm, ...):
	// accept the name when it denotes the same number in every enumeration that has it
	found, n := false, uint32(0)
	for _, e := range pinned.Reg().Enums {
		if v, ok := e[val]; ok {
			if found && v != n {
				return 0, fmt.Errorf("enumeration value %q ambiguous outside scope %s", val, scope)
			}
			found, n = true, v
		}
	}
	if found {
		if _, scoped := pinned.Reg().Enums[scope]; !scoped {
			return n, nil
		}
	}
	return 0, fmt.Errorf("enumeration value %q unknown in scope %s", val, scope)
}

func lookupMask(scope, val, sep string) (int32, error) {
	if v, err := strconv.ParseInt(val, 10, 32); err == nil {
		return int32(v), nil
	}
	var parts []string
	if sep == " " {
		parts = strings.Fields(val)
	} else {
		parts = strings.Split(val, sep)
	}
	var out uint32
	for _, p := range parts {
		p = strings.TrimSpace(p)
		if p == "" {
			continue
		}
		if strings.HasPrefix(p, "0x") {
			v, err := strconv.ParseUint(p[2:], 16, 32)
			if err != nil {
				return 0, err
			}
			out |= uint32(v)
			continue
		}
		if v, err := strconv.ParseInt(p, 10, 32); err == nil {
			out |= uint32(v)
			continue
		}
		found := false
		for i, fl := range pinned.Reg().Masks[scope] {
			if fl == p {
				out |= 1 << uint(i)
				found = true
			}
		}
		if !found {
			return 0, fmt.Errorf("mask flag %q unknown in scope %s", p, scope)
		}
	}
	return int32(out), nil
}

func parseBigHex(s string) (*big.Int, error) {
	s = strings.TrimPrefix(s, "0x")
	b, err := hex.DecodeString(s)
	if err != nil {
		return nil, err
	}
	if len(b) == 0 {
		return nil, fmt.Errorf("empty big integer")
	}
	x := new(big.Int).SetBytes(b)
	if b[0]&0x80 != 0 {
		x.Sub(x, new(big.Int).Lsh(big.NewInt(1), uint(8*len(b))))
	}
	return x, nil
}

// scalar fills n from the textual value (XML form; JSON strings share it).
func scalar(n *N, elem, attrName, val, maskSep string) error {
	switch n.Type {
	case refttlv.TInteger:
		v, err := lookupMask(enumScope(elem, attrName), val, maskSep)
		if err != nil {
			if strings.HasPrefix(val, "0x") {
				u, e2 := strconv.ParseUint(val[2:], 16, 32)
				if e2 == nil {
					n.I = int64(int32(uint32(u)))
					return nil
				}
			}
			return err
		}
		n.I = int64(v)
	case refttlv.TLongInteger:
		if strings.HasPrefix(val, "0x") {
			u, err := strconv.ParseUint(val[2:], 16, 64)
			n.I = int64(u)
			return err
		}
		v, err := strconv.ParseInt(val, 10, 64)
		n.I = v
		return err
	case refttlv.TBigInteger:
		b, err := parseBigHex(val)
		n.Big = b
		return err
	case refttlv.TEnumeration:
		v, err := lookupEnum(enumScope(elem, attrName), val)
		n.I = int64(v)
		return err
	case refttlv.TBoolean:
		switch val {
		case "true":
			n.I = 1
		case "false":
			n.I = 0
		default:
			return fmt.Errorf("boolean %q", val)
		}
	case refttlv.TTextString:
		n.S = []byte(val)
	case refttlv.TByteString:
		b, err := hex.DecodeString(val)
		n.S = b
		return err
	case refttlv.TDateTime:
		t, err := time.Parse(time.RFC3339, val)
		n.I = t.Unix()
		return err
	case refttlv.TInterval:
		v, err := strconv.ParseUint(val, 10, 32)
		n.I = int64(v)
		return err
	}
	return nil
}

// ---------------- XML ----------------

// XMLToTree parses one KMIP XML element (strict XML 1.0) into a tree.
func XMLToTree(doc []byte) (*N, error) {
	dec := xml.NewDecoder(bytes.NewReader(doc))
	dec.Strict = true
	var root *N
	for {
		tok, err := dec.Token()
		if err == io.EOF {
			break
		}
		if err != nil {
			return nil, err
		}
		switch t := tok.(type) {
		case xml.StartElement:
			if root != nil {
				return nil, fmt.Errorf("more than one root element")
			}
			root, err = xmlElem(dec, t, "")
			if err != nil {
				return nil, err
			}
		case xml.CharData:
			if strings.TrimSpace(string(t)) != "" {
				return nil, fmt.Errorf("text outside of elements")
			}
		}
	}
	if root == nil {
		return nil, fmt.Errorf("no element")
	}
	return root, nil
}

func xmlElem(dec *xml.Decoder, se xml.StartElement, attrName string) (*N, error) {
	n := &N{Type: refttlv.TStructure}
	name := se.Name.Local
	var val string
	hasVal := false
	for _, a := range se.Attr {
		switch a.Name.Local {
		case "tag":
			name = a.Value
		case "type":
			ty, ok := typeByName[a.Value]
			if !ok {
				return nil, fmt.Errorf("unknown type %q", a.Value)
			}
			n.Type = ty
		case "value":
			val, hasVal = a.Value, true
		}
	}
	if se.Name.Local == "TTLV" && name == "TTLV" {
		return nil, fmt.Errorf("TTLV element without tag")
	}
	tag, err := tagOf(name)
	if err != nil {
		return nil, err
	}
	n.Tag = tag
	elemName, _ := nameOf(tag)
	if n.Type != refttlv.TStructure {
		if !hasVal {
			return nil, fmt.Errorf("element %s without value", name)
		}
		if err := scalar(n, elemName, attrName, val, " "); err != nil {
			return nil, fmt.Errorf("%s: %w", name, err)
		}
	}
	curAttr := ""
	for {
		tok, err := dec.Token()
		if err != nil {
			return nil, err
		}
		switch t := tok.(type) {
		case xml.StartElement:
			if n.Type != refttlv.TStructure {
				return nil, fmt.Errorf("scalar element %s with children", name)
			}
			k, err := xmlElem(dec, t, curAttr)
			if err != nil {
				return nil, err
			}
			if kn, _ := nameOf(k.Tag); kn == "AttributeName" && k.Type == refttlv.TTextString {
				curAttr = string(k.S)
			}
			n.Kids = append(n.Kids, k)
		case xml.EndElement:
			return n, nil
		case xml.CharData:
			if strings.TrimSpace(string(t)) != "" {
				return nil, fmt.Errorf("text content in %s", name)
			}
		}
	}
}

func xmlEscape(s string) string {
	var b bytes.Buffer
	_ = xml.EscapeText(&b, []byte(s))
	return b.String()
}

// TreeToXML writes the tree in KMIP XML form. Enumerations are written numerically (0x%08X), masks as decimal integers,
// big integers sign-extended to a multiple of 8 bytes: all lexical forms the profile allows.
func TreeToXML(n *N) []byte {
	var b bytes.Buffer
	writeXML(&b, n, 0)
	return b.Bytes()
}

func writeXML(b *bytes.Buffer, n *N, ind int) {
	pad := strings.Repeat("  ", ind)
	name, ok := nameOf(n.Tag)
	open := name
	if !ok {
		open = fmt.Sprintf(`TTLV tag="0x%06X"`, n.Tag)
		name = "TTLV"
	}
	if n.Type == refttlv.TStructure {
		if len(n.Kids) == 0 {
			fmt.Fprintf(b, "%s<%s/>\n", pad, open)
			return
		}
		fmt.Fprintf(b, "%s<%s>\n", pad, open)
		for _, k := range n.Kids {
			writeXML(b, k, ind+1)
		}
		fmt.Fprintf(b, "%s</%s>\n", pad, name)
		return
	}
	fmt.Fprintf(b, "%s<%s type=\"%s\" value=\"%s\"/>\n", pad, open, typeNames[n.Type], xmlEscape(ScalarText(n)))
}

// ScalarText is the canonical lexical form used by the writers.
func ScalarText(n *N) string {
	switch n.Type {
	case refttlv.TInteger, refttlv.TLongInteger, refttlv.TInterval:
		return strconv.FormatInt(n.I, 10)
	case refttlv.TBigInteger:
		g := refttlv.Generate(&N{Tag: 1, Type: refttlv.TBigInteger, Big: n.Big})
		return strings.ToUpper(hex.EncodeToString(g[8:]))
	case refttlv.TEnumeration:
		return fmt.Sprintf("0x%08X", uint32(n.I))
	case refttlv.TBoolean:
		if n.I != 0 {
			return "true"
		}
		return "false"
	case refttlv.TTextString:
		return string(n.S)
	case refttlv.TByteString:
		return strings.ToUpper(hex.EncodeToString(n.S))
	case refttlv.TDateTime:
		return time.Unix(n.I, 0).UTC().Format(time.RFC3339)
	}
	return ""
}

// ---------------- JSON ----------------

// JSONToTree parses one KMIP JSON object (strict RFC 8259 through encoding/json) into a tree.
func JSONToTree(doc []byte) (*N, error) {
	dec := json.NewDecoder(bytes.NewReader(doc))
	dec.UseNumber()
	var v any
	if err := dec.Decode(&v); err != nil {
		return nil, err
	}
	if _, err := dec.Token(); err != io.EOF {
		return nil, fmt.Errorf("trailing data after the JSON value")
	}
	return jsonNode(v, "")
}

func jsonNode(v any, attrName string) (*N, error) {
	m, ok := v.(map[string]any)
	if !ok {
		return nil, fmt.Errorf("item is not an object")
	}
	ts, ok := m["tag"].(string)
	if !ok {
		return nil, fmt.Errorf("tag is not a string")
	}
	tag, err := tagOf(ts)
	if err != nil {
		return nil, err
	}
	n := &N{Tag: tag, Type: refttlv.TStructure}
	if t, has := m["type"]; has {
		s, ok := t.(string)
		if !ok {
			return nil, fmt.Errorf("type is not a string")
		}
		ty, ok := typeByName[s]
		if !ok {
			return nil, fmt.Errorf("unknown type %q", s)
		}
		n.Type = ty
	}
	val, has := m["value"]
	if !has {
		return nil, fmt.Errorf("no value")
	}
	elemName, _ := nameOf(tag)
	if n.Type == refttlv.TStructure {
		arr, ok := val.([]any)
		if !ok {
			return nil, fmt.Errorf("structure value is not an array")
		}
		cur := ""
		for _, e := range arr {
			k, err := jsonNode(e, cur)
			if err != nil {
				return nil, err
			}
			if kn, _ := nameOf(k.Tag); kn == "AttributeName" && k.Type == refttlv.TTextString {
				cur = string(k.S)
			}
			n.Kids = append(n.Kids, k)
		}
		return n, nil
	}
	switch x := val.(type) {
	case json.Number:
		switch n.Type {
		case refttlv.TInteger, refttlv.TLongInteger, refttlv.TInterval, refttlv.TEnumeration:
			i, err := strconv.ParseInt(x.String(), 10, 64)
			if err != nil {
				return nil, fmt.Errorf("%s: %w", ts, err)
			}
			n.I = i
		case refttlv.TBigInteger:
			bi, ok := new(big.Int).SetString(x.String(), 10)
			if !ok {
				return nil, fmt.Errorf("big integer %q", x)
			}
			n.Big = bi
		default:
			return nil, fmt.Errorf("%s: number for type %s", ts, typeNames[n.Type])
		}
	case bool:
		if n.Type != refttlv.TBoolean {
			return nil, fmt.Errorf("%s: boolean for type %s", ts, typeNames[n.Type])
		}
		if x {
			n.I = 1
		}
	case string:
		switch n.Type {
		case refttlv.TBoolean:
			return nil, fmt.Errorf("boolean as string")
		case refttlv.TBigInteger:
			if !strings.HasPrefix(x, "0x") {
				return nil, fmt.Errorf("big integer string without 0x")
			}
		case refttlv.TInterval:
			if !strings.HasPrefix(x, "0x") {
				return nil, fmt.Errorf("interval as a decimal string")
			}
			u, err := strconv.ParseUint(x[2:], 16, 32)
			n.I = int64(u)
			return n, err
		}
		if err := scalar(n, elemName, attrName, x, "|"); err != nil {
			return nil, fmt.Errorf("%s: %w", ts, err)
		}
	default:
		return nil, fmt.Errorf("%s: unsupported JSON value", ts)
	}
	return n, nil
}

// TreeToJSON writes the tree in KMIP JSON form (numbers as JSON numbers below 2^52, hex strings otherwise; enumerations as hex strings).
func TreeToJSON(n *N) []byte {
	var b bytes.Buffer
	writeJSON(&b, n)
	return b.Bytes()
}

func jstr(s string) string { q, _ := json.Marshal(s); return string(q) }

func writeJSON(b *bytes.Buffer, n *N) {
	name, ok := nameOf(n.Tag)
	if !ok {
		name = fmt.Sprintf("0x%06X", n.Tag)
	}
	if n.Type == refttlv.TStructure {
		fmt.Fprintf(b, `{"tag": %s, "value": [`, jstr(name))
		for i, k := range n.Kids {
			if i > 0 {
				b.WriteString(", ")
			}
			writeJSON(b, k)
		}
		b.WriteString("]}")
		return
	}
	fmt.Fprintf(b, `{"tag": %s, "type": %s, "value": `, jstr(name), jstr(typeNames[n.Type]))
	const lim = int64(1) << 52
	switch n.Type {
	case refttlv.TInteger, refttlv.TInterval:
		b.WriteString(strconv.FormatInt(n.I, 10))
	case refttlv.TLongInteger:
		if n.I >= lim || n.I <= -lim {
			fmt.Fprintf(b, `"0x%016X"`, uint64(n.I))
		} else {
			b.WriteString(strconv.FormatInt(n.I, 10))
		}
	case refttlv.TBigInteger:
		b.WriteString(`"0x` + ScalarText(n) + `"`)
	case refttlv.TBoolean:
		b.WriteString(ScalarText(n))
	default:
		b.WriteString(jstr(ScalarText(n)))
	}
	b.WriteString("}")
}
