// Package vatomic replaces "sync/atomic" in instrumented packages.
package vatomic

import (
	"reflect"

	mc "github.com/ovh/kmip-go/zz_verif/mc"
)

func b2u(b bool) uint64 {
	if b {
		return 1
	}
	return 0
}

type Bool struct {
	o mc.Obj
	v bool
}

func (b *Bool) Load() bool   { mc.Yield("atomic.Bool.Load"); mc.EvRead(&b.o, "b.load", b2u(b.v)); return b.v }
func (b *Bool) Store(v bool) { mc.Yield("atomic.Bool.Store"); mc.EvWrite(&b.o, "b.store", b2u(v)); b.v = v }
func (b *Bool) Swap(v bool) bool {
	mc.Yield("atomic.Bool.Swap")
	mc.EvWrite(&b.o, "b.swap", b2u(v))
	o := b.v
	b.v = v
	return o
}
func (b *Bool) CompareAndSwap(old, new bool) bool {
	mc.Yield("atomic.Bool.CAS")
	mc.EvWrite(&b.o, "b.cas", b2u(old)*2+b2u(new))
	if b.v == old {
		b.v = new
		return true
	}
	return false
}

type num interface {
	~int32 | ~int64 | ~uint32 | ~uint64 | ~uintptr
}

type Num[T num] struct {
	o mc.Obj
	v T
}

func (x *Num[T]) Load() T   { mc.Yield("atomic.Load"); mc.EvRead(&x.o, "n.load", uint64(x.v)); return x.v }
func (x *Num[T]) Store(v T) { mc.Yield("atomic.Store"); mc.EvWrite(&x.o, "n.store", uint64(v)); x.v = v }
func (x *Num[T]) Add(d T) T {
	mc.Yield("atomic.Add")
	mc.EvWrite(&x.o, "n.add", uint64(d))
	x.v += d
	return x.v
}
func (x *Num[T]) Swap(v T) T {
	mc.Yield("atomic.Swap")
	mc.EvWrite(&x.o, "n.swap", uint64(v))
	o := x.v
	x.v = v
	return o
}
func (x *Num[T]) CompareAndSwap(old, new T) bool {
	mc.Yield("atomic.CAS")
	mc.EvWrite(&x.o, "n.cas", uint64(old)^uint64(new)<<1)
	if x.v == old {
		x.v = new
		return true
	}
	return false
}

type Int32 = Num[int32]
type Int64 = Num[int64]
type Uint32 = Num[uint32]
type Uint64 = Num[uint64]
type Uintptr = Num[uintptr]

type Pointer[T any] struct {
	o mc.Obj
	v *T
}

func (x *Pointer[T]) Load() *T   { mc.Yield("atomic.Pointer.Load"); mc.EvRead(&x.o, "p.load", 0); return x.v }
func (x *Pointer[T]) Store(v *T) { mc.Yield("atomic.Pointer.Store"); mc.EvWrite(&x.o, "p.store", 0); x.v = v }
func (x *Pointer[T]) Swap(v *T) *T {
	mc.Yield("atomic.Pointer.Swap")
	mc.EvWrite(&x.o, "p.swap", 0)
	o := x.v
	x.v = v
	return o
}
func (x *Pointer[T]) CompareAndSwap(old, new *T) bool {
	mc.Yield("atomic.Pointer.CAS")
	mc.EvWrite(&x.o, "p.cas", 0)
	if x.v == old {
		x.v = new
		return true
	}
	return false
}

// Value follows sync/atomic.Value: nil stores and inconsistently typed stores panic.
type Value struct {
	o mc.Obj
	v any
}

func (x *Value) check(v any, op string) {
	if v == nil {
		panic("sync/atomic: " + op + " of nil value into Value")
	}
	if x.v != nil && reflect.TypeOf(x.v) != reflect.TypeOf(v) {
		panic("sync/atomic: " + op + " of inconsistently typed value into Value")
	}
}

func (x *Value) Load() any { mc.Yield("atomic.Value.Load"); mc.EvRead(&x.o, "v.load", 0); return x.v }
func (x *Value) Store(v any) {
	mc.Yield("atomic.Value.Store")
	x.check(v, "store")
	mc.EvWrite(&x.o, "v.store", 0)
	x.v = v
}
func (x *Value) Swap(v any) any {
	mc.Yield("atomic.Value.Swap")
	x.check(v, "swap")
	mc.EvWrite(&x.o, "v.swap", 0)
	o := x.v
	x.v = v
	return o
}
func (x *Value) CompareAndSwap(old, new any) bool {
	mc.Yield("atomic.Value.CAS")
	x.check(new, "compare and swap")
	mc.EvWrite(&x.o, "v.cas", 0)
	if x.v == old {
		x.v = new
		return true
	}
	return false
}
