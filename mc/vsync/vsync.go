// Package vsync replaces "sync" in instrumented packages.
package vsync

import (
	"fmt"

	mc "github.com/ovh/kmip-go/zz_verif/mc"
)

type Locker interface {
	Lock()
	Unlock()
}

type Mutex struct {
	o      mc.Obj
	locked bool
}

func (m *Mutex) Lock() {
	mc.Block("mutex.Lock", func() bool { return !m.locked })
	mc.EvWrite(&m.o, "lock", 0)
	m.locked = true
}
func (m *Mutex) TryLock() bool {
	mc.Yield("mutex.TryLock")
	mc.EvWrite(&m.o, "trylock", 0)
	if m.locked {
		return false
	}
	m.locked = true
	return true
}
func (m *Mutex) Unlock() {
	mc.Yield("mutex.Unlock")
	mc.EvWrite(&m.o, "unlock", 0)
	if !m.locked {
		panic("sync: unlock of unlocked mutex")
	}
	m.locked = false
}

type RWMutex struct {
	o       mc.Obj
	w       bool
	readers int
}

func (m *RWMutex) Lock() {
	mc.Block("rw.Lock", func() bool { return !m.w && m.readers == 0 })
	mc.EvWrite(&m.o, "rw.lock", 0)
	m.w = true
}
func (m *RWMutex) Unlock() {
	mc.Yield("rw.Unlock")
	mc.EvWrite(&m.o, "rw.unlock", 0)
	if !m.w {
		panic("sync: Unlock of unlocked RWMutex")
	}
	m.w = false
}
func (m *RWMutex) RLock() {
	mc.Block("rw.RLock", func() bool { return !m.w })
	mc.EvWrite(&m.o, "rw.rlock", 0)
	m.readers++
}
func (m *RWMutex) RUnlock() {
	mc.Yield("rw.RUnlock")
	mc.EvWrite(&m.o, "rw.runlock", 0)
	if m.readers <= 0 {
		panic("sync: RUnlock of unlocked RWMutex")
	}
	m.readers--
}

type WaitGroup struct {
	o mc.Obj
	n int
}

func (w *WaitGroup) Add(d int) {
	mc.Yield("wg.Add")
	mc.EvWrite(&w.o, "wg.add", uint64(int64(d)))
	w.n += d
	if w.n < 0 {
		panic("sync: negative WaitGroup counter")
	}
}
func (w *WaitGroup) Done() { w.Add(-1) }
func (w *WaitGroup) Wait() {
	mc.Block("wg.Wait", func() bool { return w.n == 0 })
	mc.EvRead(&w.o, "wg.wait", 0)
}
func (w *WaitGroup) Go(f func()) {
	w.Add(1)
	mc.Go(func() { defer w.Done(); f() })
}

type Once struct {
	m    Mutex
	done bool
}

func (o *Once) Do(f func()) {
	o.m.Lock()
	defer o.m.Unlock()
	if !o.done {
		defer func() { o.done = true }()
		f()
	}
}

// Map: every operation is a scheduling point; conflicts are tracked per key so that the state cache
// can commute operations on different keys.
type Map struct {
	m    map[any]any
	objs map[any]*mc.Obj
	all  mc.Obj
}

func (m *Map) obj(k any) *mc.Obj {
	if m.objs == nil {
		m.objs = map[any]*mc.Obj{}
		m.m = map[any]any{}
	}
	o := m.objs[k]
	if o == nil {
		o = &mc.Obj{}
		m.objs[k] = o
	}
	return o
}

func keyHash(k any) uint64 { return mc.HashStr(fmt.Sprint(k)) }

func (m *Map) Load(k any) (any, bool) {
	mc.Yield("map.Load")
	o := m.obj(k)
	v, ok := m.m[k]
	mc.EvRead(o, "map.load", keyHash(k))
	return v, ok
}
func (m *Map) Store(k, v any) {
	mc.Yield("map.Store")
	o := m.obj(k)
	mc.EvWrite(o, "map.store", keyHash(k))
	mc.EvWrite(&m.all, "map.mut", 0)
	m.m[k] = v
}
func (m *Map) LoadOrStore(k, v any) (any, bool) {
	mc.Yield("map.LoadOrStore")
	o := m.obj(k)
	if old, ok := m.m[k]; ok {
		mc.EvRead(o, "map.los.load", keyHash(k))
		return old, true
	}
	mc.EvWrite(o, "map.los.store", keyHash(k))
	mc.EvWrite(&m.all, "map.mut", 0)
	m.m[k] = v
	return v, false
}
func (m *Map) LoadAndDelete(k any) (any, bool) {
	mc.Yield("map.LoadAndDelete")
	o := m.obj(k)
	mc.EvWrite(o, "map.lad", keyHash(k))
	mc.EvWrite(&m.all, "map.mut", 0)
	v, ok := m.m[k]
	delete(m.m, k)
	return v, ok
}
func (m *Map) Delete(k any) { m.LoadAndDelete(k) }
func (m *Map) Swap(k, v any) (any, bool) {
	mc.Yield("map.Swap")
	o := m.obj(k)
	mc.EvWrite(o, "map.swap", keyHash(k))
	mc.EvWrite(&m.all, "map.mut", 0)
	old, ok := m.m[k]
	m.m[k] = v
	return old, ok
}
func (m *Map) CompareAndSwap(k, old, new any) bool {
	mc.Yield("map.CAS")
	o := m.obj(k)
	mc.EvWrite(o, "map.cas", keyHash(k))
	if cur, ok := m.m[k]; ok && cur == old {
		mc.EvWrite(&m.all, "map.mut", 0)
		m.m[k] = new
		return true
	}
	return false
}
func (m *Map) Range(f func(k, v any) bool) {
	mc.Yield("map.Range")
	m.obj(nil)
	mc.EvRead(&m.all, "map.range", 0)
	type kv struct{ k, v any }
	var snap []kv
	for k, v := range m.m {
		snap = append(snap, kv{k, v})
	}
	// deterministic order
	for i := 1; i < len(snap); i++ {
		for j := i; j > 0 && fmt.Sprint(snap[j].k) < fmt.Sprint(snap[j-1].k); j-- {
			snap[j], snap[j-1] = snap[j-1], snap[j]
		}
	}
	for _, e := range snap {
		if !f(e.k, e.v) {
			return
		}
	}
}
func (m *Map) Clear() {
	mc.Yield("map.Clear")
	m.obj(nil)
	mc.EvWrite(&m.all, "map.clear", 0)
	for k := range m.m {
		mc.EvWrite(m.obj(k), "map.clear1", 0)
	}
	m.m = map[any]any{}
}

// Pool models sync.Pool. Put pushes; Get is a scheduling point and, when the pool holds something, an environment
// choice: alternative 0 hands out the most recently put item (what the runtime does for a goroutine that stays on its
// P), alternative 1 - one unit of the fault budget - behaves as after a garbage collection: the pool is empty.
type Pool struct {
	New   func() any
	items []any
	o     mc.Obj
}

func (p *Pool) Get() any {
	mc.Yield("pool.Get")
	mc.EvWrite(&p.o, "pool.get", uint64(len(p.items)))
	if n := len(p.items); n > 0 {
		if mc.Choose("pool.Get.env", 2) == 0 {
			x := p.items[n-1]
			p.items = p.items[:n-1]
			return x
		}
		p.items = nil
	}
	if p.New != nil {
		return p.New()
	}
	return nil
}

func (p *Pool) Put(x any) {
	if x == nil {
		return
	}
	mc.Yield("pool.Put")
	mc.EvWrite(&p.o, "pool.put", uint64(len(p.items)))
	p.items = append(p.items, x)
}

// ZZVerifReset empties the pool (a fresh process starts with empty pools).
func (p *Pool) ZZVerifReset() { p.items = nil }

// Cond models sync.Cond over a vsync Locker: Wait releases the lock and parks until a Signal/Broadcast issued after it.
type Cond struct {
	L       Locker
	o       mc.Obj
	tickets []*bool
}

func NewCond(l Locker) *Cond { return &Cond{L: l} }

func (c *Cond) Wait() {
	woken := false
	c.tickets = append(c.tickets, &woken)
	c.L.Unlock()
	mc.Block("cond.Wait", func() bool { return woken })
	mc.EvRead(&c.o, "cond.wait", 0)
	c.L.Lock()
}

func (c *Cond) Signal() {
	mc.Yield("cond.Signal")
	mc.EvWrite(&c.o, "cond.signal", 0)
	if len(c.tickets) > 0 {
		*c.tickets[0] = true
		c.tickets = c.tickets[1:]
	}
}

func (c *Cond) Broadcast() {
	mc.Yield("cond.Broadcast")
	mc.EvWrite(&c.o, "cond.broadcast", 0)
	for _, t := range c.tickets {
		*t = true
	}
	c.tickets = nil
}

// OnceFunc, OnceValue and OnceValues as in package sync, built on the modelled Once.
func OnceFunc(f func()) func() {
	var once Once
	return func() { once.Do(f) }
}

func OnceValue[T any](f func() T) func() T {
	var once Once
	var v T
	return func() T { once.Do(func() { v = f() }); return v }
}

func OnceValues[T1, T2 any](f func() (T1, T2)) func() (T1, T2) {
	var once Once
	var a T1
	var b T2
	return func() (T1, T2) { once.Do(func() { a, b = f() }); return a, b }
}
