// Package mc is the controlled-scheduler runtime ("mcsched"). It is injected into the repository's module as
// github.com/ovh/kmip-go/zz_verif/mc through `go build -overlay`; instrumented library code and the
// scenario harness both call it. Exactly one managed thread runs at a time; every shim operation is a
// scheduling point at which the explorer picks the next thread / select case / environment answer.
package mc

import (
	"fmt"
	"runtime"
	"strings"
)

var Keep = 0

type option struct {
	t    *thread
	alt  int
	cost uint8 // bit0: preemption, bit1: fault (non-default environment answer)
}

const (
	CostPre   = 1
	CostFault = 2
)

type thread struct {
	id      int
	name    string
	lib     bool // spawned by instrumented library code (not by the harness)
	daemon  bool // harness thread that may legitimately stay blocked (scripted peer)
	origin  string
	wake    chan struct{}
	exited  chan struct{}
	h       uint64
	done    bool
	opDesc  string
	options func() []int // enabled alternatives of the pending operation (nil/empty = blocked)
	env     bool         // pending op is an environment choice: alternatives != 0 cost one fault
	chosen  int
	// passive completion by a peer (rendezvous)
	completed bool
	site      string // where it was parked when the execution ended (blocked threads only)
}

// Exec is one execution (one schedule) of a scenario.
type Exec struct {
	threads  []*thread
	cur      *thread
	parked   chan struct{}
	aborting bool
	prefix   []int
	maxSteps int
	cut      func(step int, key uint64) bool
	doneReg  map[<-chan struct{}]*Ctx

	Choices   []int
	OptCosts  [][]uint8 // per step, cost bits of each option
	Trace     []string
	Panics    []PanicInfo
	Blocked   []BlockedInfo
	Fail      []string
	Fatal     []string // machinery problems (never a verdict)
	Truncated bool
	WasCut    bool
	Steps     int
	wantTrace bool
	Notes     map[string]string
	TimersFired int
}

type PanicInfo struct {
	Thread string
	Lib    bool
	Value  string
	Site   string
}

type BlockedInfo struct {
	Thread string
	Lib    bool
	Daemon bool
	Op     string
	Site   string
	Origin string
}

// S is the execution in progress (single-threaded by construction).
var S *Exec

func cur() *thread { return S.cur }

// ---- happens-before (Merkle) fingerprinting ----

type Obj struct {
	lastW uint64
	reads uint64
}

func mix(a ...uint64) uint64 {
	h := uint64(1469598103934665603)
	for _, x := range a {
		for i := 0; i < 8; i++ {
			h ^= (x >> (8 * uint(i))) & 0xff
			h *= 1099511628211
		}
	}
	return h
}

func HashStr(s string) uint64 {
	h := uint64(1469598103934665603)
	for i := 0; i < len(s); i++ {
		h ^= uint64(s[i])
		h *= 1099511628211
	}
	return h
}

var kindCache = map[string]uint64{}

func kindHash(s string) uint64 {
	if v, ok := kindCache[s]; ok {
		return v
	}
	v := HashStr(s)
	kindCache[s] = v
	return v
}

// EvRead / EvWrite record an access of the running thread to a shim object.
func EvRead(o *Obj, kind string, extra uint64) {
	t := cur()
	e := mix(kindHash(kind), t.h, o.lastW, extra)
	t.h = e
	o.reads += e
}

func EvWrite(o *Obj, kind string, extra uint64) {
	t := cur()
	e := mix(kindHash(kind), t.h, o.lastW, o.reads, extra)
	t.h = e
	o.lastW = e
	o.reads = 0
}

func evWrite2(o *Obj, kind string, a, b *thread) {
	e := mix(kindHash(kind), a.h, b.h, o.lastW, o.reads)
	a.h = mix(e, 1)
	b.h = mix(e, 2)
	o.lastW = e
	o.reads = 0
}

// Observe folds a harness observation into the running thread's hash (so that the state cache never
// merges two states in which a scenario thread has seen different things).
func Observe(v uint64) { t := cur(); t.h = mix(t.h, v, 4242) }

// point parks the calling managed thread until the scheduler selects it with one of the alternatives.
func point(desc string, env bool, options func() []int) int {
	t := cur()
	if S.aborting {
		runtime.Goexit()
	}
	t.opDesc, t.options, t.completed, t.env = desc, options, false, env
	S.parked <- struct{}{}
	<-t.wake
	if S.aborting {
		t.site = callerSite()
		runtime.Goexit()
	}
	t.options = nil
	t.h = mix(t.h, 31) // every step advances the thread's hash chain, also when it touches no shim object
	return t.chosen
}

var one = []int{0}

func simple(desc string, enabled func() bool) {
	point(desc, false, func() []int {
		if enabled == nil || enabled() {
			return one
		}
		return nil
	})
}

// callerSite returns the innermost function on the stack that is neither runtime nor this package.
func callerSite() string {
	pcs := make([]uintptr, 32)
	n := runtime.Callers(2, pcs)
	fr := runtime.CallersFrames(pcs[:n])
	for {
		f, more := fr.Next()
		fn := f.Function
		if fn != "" && !strings.Contains(fn, "zz_verif/mc") && !strings.HasPrefix(fn, "runtime.") {
			return shortFunc(fn)
		}
		if !more {
			return "?"
		}
	}
}

func shortFunc(fn string) string {
	fn = strings.TrimPrefix(fn, "github.com/ovh/kmip-go/")
	for {
		i := strings.LastIndex(fn, ".")
		if i < 0 {
			break
		}
		suf := fn[i+1:]
		if strings.HasPrefix(suf, "func") || (suf != "" && suf[0] >= '0' && suf[0] <= '9') {
			fn = fn[:i]
			continue
		}
		break
	}
	return fn
}

// Go starts a managed thread on behalf of instrumented library code.
func Go(f func()) { spawn("", true, f) }

// GoNamed starts a managed harness thread.
func GoNamed(name string, f func()) { spawn(name, false, f) }

// GoDaemon starts a harness thread that may stay blocked at the end without this being a finding.
func GoDaemon(name string, f func()) { spawn(name, false, f); S.threads[len(S.threads)-1].daemon = true }

func spawn(name string, lib bool, f func()) {
	t := &thread{id: len(S.threads), name: name, lib: lib, wake: make(chan struct{}), exited: make(chan struct{})}
	t.origin = callerSiteSkipGo()
	if name == "" {
		t.name = fmt.Sprintf("g%d<%s>", t.id, t.origin)
	}
	if S.cur != nil {
		S.cur.h = mix(S.cur.h, 77)
		t.h = mix(S.cur.h, 78)
	} else {
		t.h = 12345
	}
	t.opDesc = "start"
	t.options = func() []int { return one }
	S.threads = append(S.threads, t)
	go func() {
		defer close(t.exited)
		<-t.wake
		if S.aborting {
			t.site = "(not started)"
			return
		}
		t.options = nil
		defer func() {
			r := recover()
			if S.aborting {
				return
			}
			if r != nil {
				site := panicSite()
				S.Panics = append(S.Panics, PanicInfo{Thread: t.name, Lib: t.lib, Value: fmt.Sprint(r), Site: site})
			}
			t.done = true
			t.h = mix(t.h, 99)
			S.parked <- struct{}{}
		}()
		f()
	}()
}

func callerSiteSkipGo() string {
	pcs := make([]uintptr, 32)
	n := runtime.Callers(3, pcs)
	fr := runtime.CallersFrames(pcs[:n])
	for {
		f, more := fr.Next()
		fn := f.Function
		if fn != "" && !strings.Contains(fn, "zz_verif/mc") && !strings.HasPrefix(fn, "runtime.") {
			return shortFunc(fn)
		}
		if !more {
			return "?"
		}
	}
}

// panicSite: innermost non-runtime, non-mc frame of the panicking stack (called from the deferred recover).
func panicSite() string {
	pcs := make([]uintptr, 64)
	n := runtime.Callers(3, pcs)
	fr := runtime.CallersFrames(pcs[:n])
	for {
		f, more := fr.Next()
		fn := f.Function
		if fn != "" && !strings.Contains(fn, "zz_verif/mc") && !strings.HasPrefix(fn, "runtime.") && !strings.HasPrefix(fn, "runtime/") {
			return shortFunc(fn)
		}
		if !more {
			return "?"
		}
	}
}

// Run executes one schedule: the prefix choices, then alternative 0 at every later point.
func Run(prefix []int, maxSteps int, wantTrace bool, main func(), cut func(step int, key uint64) bool) *Exec {
	return RunMode(prefix, maxSteps, wantTrace, false, main, cut)
}

// RunMode: with delay=true the cost model is delay bounding (Emmi/Qadeer/Rakamaric): the deterministic
// scheduler continues the running thread, or else picks the lowest enabled thread; choosing any other
// thread costs one unit even when the running thread is blocked. With delay=false it is preemption
// bounding: switching away from a blocked or finished thread is free.
func RunMode(prefix []int, maxSteps int, wantTrace bool, delay bool, main func(), cut func(step int, key uint64) bool) *Exec {
	s := &Exec{parked: make(chan struct{}), prefix: prefix, maxSteps: maxSteps, doneReg: map[<-chan struct{}]*Ctx{}, cut: cut, wantTrace: wantTrace, Notes: map[string]string{}}
	S = s
	spawn("main", false, main)
	step := 0
	var opts []option
	for {
		opts = opts[:0]
		curEnabled := false
		add := func(t *thread, pre uint8) {
			if t.done || t.options == nil {
				return
			}
			for _, a := range t.options() {
				c := pre
				if t.env && a != 0 {
					c |= CostFault
				}
				opts = append(opts, option{t, a, c})
			}
		}
		if s.cur != nil {
			add(s.cur, 0)
			curEnabled = len(opts) > 0
		}
		pre := uint8(0)
		if curEnabled {
			pre = CostPre
		}
		for _, t := range s.threads {
			if t != s.cur {
				add(t, pre)
			}
		}
		if len(opts) == 0 {
			break
		}
		if delay {
			for i := range opts {
				if opts[i].t != opts[0].t {
					opts[i].cost |= CostPre
				}
			}
		}
		if step >= maxSteps {
			s.Truncated = true
			break
		}
		if step >= len(prefix) && s.cut != nil {
			if s.cut(step, s.StateKey()) {
				s.WasCut = true
				break
			}
		}
		c := 0
		if step < len(prefix) {
			c = prefix[step]
			if c >= len(opts) {
				s.Fatal = append(s.Fatal, fmt.Sprintf("replay divergence at step %d: choice %d of %d options", step, c, len(opts)))
				break
			}
		}
		s.Choices = append(s.Choices, c)
		costs := make([]uint8, len(opts))
		for i, o := range opts {
			costs[i] = o.cost
		}
		s.OptCosts = append(s.OptCosts, costs)
		o := opts[c]
		if wantTrace {
			s.Trace = append(s.Trace, fmt.Sprintf("%s:%s/%d", o.t.name, o.t.opDesc, o.alt))
		}
		s.cur = o.t
		o.t.chosen = o.alt
		o.t.wake <- struct{}{}
		<-s.parked
		step++
	}
	s.Steps = step
	if step < len(prefix) && !s.WasCut && len(s.Fatal) == 0 {
		s.Fatal = append(s.Fatal, fmt.Sprintf("replay divergence: execution ended after %d steps but the recorded prefix has %d choices (scenario not deterministic)", step, len(prefix)))
	}
	// stop the remaining threads one at a time and join them (deferred library code may run shim calls)
	s.aborting = true
	for _, t := range s.threads {
		if !t.done {
			s.cur = t
			t.wake <- struct{}{}
			<-t.exited
			if !s.WasCut && !s.Truncated && len(s.Fatal) == 0 {
				s.Blocked = append(s.Blocked, BlockedInfo{Thread: t.name, Lib: t.lib, Daemon: t.daemon, Op: t.opDesc, Site: t.site, Origin: t.origin})
			}
		}
	}
	return s
}

// StateKey fingerprints the global state (happens-before partial order) at a scheduling decision.
func (s *Exec) StateKey() uint64 {
	var acc uint64
	for _, t := range s.threads {
		x := t.h
		if t.done {
			x = mix(x, 3)
		}
		acc += mix(x, 17)
	}
	c := uint64(0)
	if s.cur != nil {
		c = s.cur.h
	}
	return mix(acc, c)
}

// Failf records an oracle failure observed by the scenario during the execution.
func Failf(format string, a ...any) { S.Fail = append(S.Fail, fmt.Sprintf(format, a...)) }

// Fatalf records a machinery problem (exit 2, never a verdict).
func Fatalf(format string, a ...any) { S.Fatal = append(S.Fatal, fmt.Sprintf(format, a...)) }

// Note stores a per-execution annotation for outcome classification.
func Note(k, v string) { S.Notes[k] = v }

// Yield is a plain scheduling point for harness code.
func Yield(desc string) { simple(desc, nil) }

// Block parks until cond holds.
func Block(desc string, cond func() bool) { simple(desc, cond) }

// Choose is an environment choice point with n alternatives; alternative 0 is the default answer,
// any other one costs one unit of the fault budget.
func Choose(desc string, n int) int {
	alts := make([]int, n)
	for i := range alts {
		alts[i] = i
	}
	a := point(desc, true, func() []int { return alts })
	t := cur()
	t.h = mix(t.h, uint64(a), 777)
	return a
}

// ChooseFree is a choice point whose alternatives are all free (e.g. which of several equal answers).
func ChooseFree(desc string, n int) int {
	alts := make([]int, n)
	for i := range alts {
		alts[i] = i
	}
	a := point(desc, false, func() []int { return alts })
	t := cur()
	t.h = mix(t.h, uint64(a), 778)
	return a
}

// Var is a harness-owned shared cell whose accesses are scheduling points and HB events.
type Var[T comparable] struct {
	o Obj
	v T
}

func (x *Var[T]) Load() T { simple("var.Load", nil); EvRead(&x.o, "var.load", 0); return x.v }
func (x *Var[T]) Store(v T) {
	simple("var.Store", nil)
	EvWrite(&x.o, "var.store", 0)
	x.v = v
}
func (x *Var[T]) Await(want T) {
	simple("var.Await", func() bool { return x.v == want })
	EvRead(&x.o, "var.await", 0)
}

// Peek reads without a scheduling point (for end-of-execution oracles only).
func (x *Var[T]) Peek() T { return x.v }

// Log is a harness-owned append-only event log; Append is a scheduling point + write event.
type Log struct {
	o  Obj
	Ev []string
}

func (l *Log) Append(s string) {
	simple("log.Append", nil)
	EvWrite(&l.o, "log.append", HashStr(s))
	l.Ev = append(l.Ev, s)
}

// AppendQuiet records an event without a scheduling point but still as a write event.
func (l *Log) AppendQuiet(s string) {
	EvWrite(&l.o, "log.append", HashStr(s))
	l.Ev = append(l.Ev, s)
}

// Counter is a harness-owned shared integer; Add is a scheduling point and a write event.
type Counter struct {
	o Obj
	v int
}

func (c *Counter) Add(d int) int {
	simple("counter.Add", nil)
	EvWrite(&c.o, "counter.add", uint64(int64(d)))
	c.v += d
	return c.v
}
func (c *Counter) Load() int { simple("counter.Load", nil); EvRead(&c.o, "counter.load", uint64(int64(c.v))); return c.v }
func (c *Counter) Peek() int { return c.v }

// Await parks until the counter equals want.
func (c *Counter) Await(want int) {
	simple("counter.Await", func() bool { return c.v == want })
	EvRead(&c.o, "counter.await", uint64(int64(c.v)))
}

// TimersFired reports how many timers have fired so far in this execution (read as an HB event on the timer).
func TimersFired() int { return S.TimersFired }

// WriteYield is inserted by the instrumenter (option -writeyields) before assignments to fields, elements and
// pointees: a scheduling point that makes unsynchronised shared-memory writes interleavable. It is a no-op
// outside a managed thread (package initialisation).
func WriteYield() {
	if S == nil || S.cur == nil || S.aborting && S.cur == nil {
		return
	}
	simple("write", nil)
}
