package mc

// ---------- channels ----------

type Chan[T any] struct {
	o      Obj
	buf    []T
	cap    int
	closed bool
	recvq  []*rwait[T] // parked receivers (plain or select cases)
	sendq  []*swait[T]
}

type rwait[T any] struct {
	t   *thread
	val T
	ok  bool
	got bool
	sel *selState
	idx int
}
type swait[T any] struct {
	t    *thread
	val  T
	sent bool
	sel  *selState
	idx  int
}

type selState struct {
	fired int // index fired passively, -1 none
	done  bool
}

func MakeChan[T any](n int) *Chan[T] { return &Chan[T]{cap: n} }

func (c *Chan[T]) removeR(w *rwait[T]) {
	for i, x := range c.recvq {
		if x == w {
			c.recvq = append(c.recvq[:i:i], c.recvq[i+1:]...)
			return
		}
	}
}
func (c *Chan[T]) removeS(w *swait[T]) {
	for i, x := range c.sendq {
		if x == w {
			c.sendq = append(c.sendq[:i:i], c.sendq[i+1:]...)
			return
		}
	}
}

func (c *Chan[T]) liveRs() []*rwait[T] {
	var r []*rwait[T]
	for _, w := range c.recvq {
		if !w.got && (w.sel == nil || !w.sel.done) && w.t != cur() {
			r = append(r, w)
		}
	}
	return r
}
func (c *Chan[T]) liveSs() []*swait[T] {
	var r []*swait[T]
	for _, w := range c.sendq {
		if !w.sent && (w.sel == nil || !w.sel.done) && w.t != cur() {
			r = append(r, w)
		}
	}
	return r
}

// readiness as seen by thread t (a thread never pairs with itself)
func (c *Chan[T]) canSendT(t *thread) bool {
	if c == nil {
		return false
	}
	if c.closed || len(c.buf) < c.cap {
		return true
	}
	for _, w := range c.recvq {
		if !w.got && (w.sel == nil || !w.sel.done) && w.t != t {
			return true
		}
	}
	return false
}
func (c *Chan[T]) canRecvT(t *thread) bool {
	if c == nil {
		return false
	}
	if c.closed || len(c.buf) > 0 {
		return true
	}
	for _, w := range c.sendq {
		if !w.sent && (w.sel == nil || !w.sel.done) && w.t != t {
			return true
		}
	}
	return false
}

// Parked waiters are served first-come first-served, as the Go runtime does; the arrival order itself
// is decided by the schedule.
func pick(n int) int { return 0 }

func (c *Chan[T]) doSend(v T) {
	if c.closed {
		panic("send on closed channel")
	}
	if rs := c.liveRs(); len(rs) > 0 && len(c.buf) == 0 {
		r := rs[pick(len(rs))]
		evWrite2(&c.o, "rdv", cur(), r.t)
		r.val, r.ok, r.got = v, true, true
		if r.sel != nil {
			r.sel.done, r.sel.fired = true, r.idx
		}
		r.t.completed = true
		return
	}
	EvWrite(&c.o, "bufsend", 0)
	c.buf = append(c.buf, v)
}

func (c *Chan[T]) doRecv() (T, bool) {
	if len(c.buf) > 0 {
		EvWrite(&c.o, "bufrecv", 0)
		v := c.buf[0]
		c.buf = c.buf[1:]
		// a parked sender may now move its value into the buffer
		if ss := c.liveSs(); len(ss) > 0 {
			s := ss[pick(len(ss))]
			evWrite2(&c.o, "rdvbuf", s.t, cur())
			c.buf = append(c.buf, s.val)
			s.sent = true
			if s.sel != nil {
				s.sel.done, s.sel.fired = true, s.idx
			}
			s.t.completed = true
		}
		return v, true
	}
	if ss := c.liveSs(); len(ss) > 0 {
		s := ss[pick(len(ss))]
		evWrite2(&c.o, "rdv", s.t, cur())
		s.sent = true
		if s.sel != nil {
			s.sel.done, s.sel.fired = true, s.idx
		}
		s.t.completed = true
		return s.val, true
	}
	if c.closed {
		EvRead(&c.o, "recvclosed", 0)
		var z T
		return z, false
	}
	panic("mc: doRecv on non-ready channel")
}

func Send[T any](c *Chan[T], v T) {
	t := cur()
	var w *swait[T]
	if c != nil {
		w = &swait[T]{t: t, val: v}
		c.sendq = append(c.sendq, w)
	}
	point("send", false, func() []int {
		if t.completed || c.canSendT(t) {
			return one
		}
		return nil
	})
	if c != nil {
		c.removeS(w)
	}
	if w != nil && w.sent {
		return
	}
	c.doSend(v)
}

func Recv2[T any](c *Chan[T]) (T, bool) {
	t := cur()
	var w *rwait[T]
	if c != nil {
		w = &rwait[T]{t: t}
		c.recvq = append(c.recvq, w)
	}
	point("recv", false, func() []int {
		if t.completed || c.canRecvT(t) {
			return one
		}
		return nil
	})
	if c != nil {
		c.removeR(w)
	}
	if w != nil && w.got {
		return w.val, w.ok
	}
	return c.doRecv()
}

func Recv[T any](c *Chan[T]) T { v, _ := Recv2(c); return v }

func Close[T any](c *Chan[T]) {
	simple("close", nil)
	if c == nil {
		panic("close of nil channel")
	}
	if c.closed {
		panic("close of closed channel")
	}
	EvWrite(&c.o, "close", 0)
	c.closed = true
	// parked receivers become enabled (closed); a parked sender will panic when it runs, as in Go
}

func Len[T any](c *Chan[T]) int {
	if c == nil {
		return 0
	}
	simple("len", nil)
	EvRead(&c.o, "len", uint64(len(c.buf)))
	return len(c.buf)
}

func Cap[T any](c *Chan[T]) int {
	if c == nil {
		return 0
	}
	return c.cap
}

// ---------- select ----------

type Case interface {
	register(t *thread, st *selState, idx int)
	unregister()
	ready(t *thread) bool
	fire()
}

type RCase[T any] struct {
	c   *Chan[T]
	w   *rwait[T]
	val T
	ok  bool
}

func RecvCase[T any](c *Chan[T]) *RCase[T] { return &RCase[T]{c: c} }
func (k *RCase[T]) register(t *thread, st *selState, idx int) {
	if k.c == nil {
		return
	}
	k.w = &rwait[T]{t: t, sel: st, idx: idx}
	k.c.recvq = append(k.c.recvq, k.w)
}
func (k *RCase[T]) unregister() {
	if k.c != nil {
		k.c.removeR(k.w)
	}
}
func (k *RCase[T]) ready(t *thread) bool { return k.c.canRecvT(t) }
func (k *RCase[T]) fire() {
	if k.w != nil && k.w.got {
		k.val, k.ok = k.w.val, k.w.ok
		return
	}
	k.val, k.ok = k.c.doRecv()
}
func (k *RCase[T]) Val() T         { return k.val }
func (k *RCase[T]) Get() (T, bool) { return k.val, k.ok }

type SCase[T any] struct {
	c *Chan[T]
	v T
	w *swait[T]
}

func SendCase[T any](c *Chan[T], v T) *SCase[T] { return &SCase[T]{c: c, v: v} }
func (k *SCase[T]) register(t *thread, st *selState, idx int) {
	if k.c == nil {
		return
	}
	k.w = &swait[T]{t: t, val: k.v, sel: st, idx: idx}
	k.c.sendq = append(k.c.sendq, k.w)
}
func (k *SCase[T]) unregister() {
	if k.c != nil {
		k.c.removeS(k.w)
	}
}
func (k *SCase[T]) ready(t *thread) bool { return k.c.canSendT(t) }
func (k *SCase[T]) fire() {
	if k.w != nil && k.w.sent {
		return
	}
	k.c.doSend(k.v)
}

type DCase struct{ x *Ctx }

// DoneCase wraps `<-x.Done()`; the real channel is looked up in the scheduler's context registry.
func DoneCase(ch <-chan struct{}) *DCase {
	if ch == nil {
		return &DCase{}
	}
	x := S.doneReg[ch]
	if x == nil {
		Fatalf("select on a Done channel of a context not created through the mc shims (at %s)", callerSite())
		return &DCase{}
	}
	return &DCase{x}
}
func (k *DCase) register(*thread, *selState, int) {}
func (k *DCase) unregister()                      {}
func (k *DCase) ready(*thread) bool               { return k.x != nil && k.x.err != nil }
func (k *DCase) fire()                            {}
func (k *DCase) Val() struct{}                    { return struct{}{} }
func (k *DCase) Get() (struct{}, bool)            { return struct{}{}, false }

func Select(hasDefault bool, cases ...Case) int {
	t := cur()
	st := &selState{fired: -1}
	for i, c := range cases {
		c.register(t, st, i)
	}
	alt := point("select", false, func() []int {
		if st.done {
			return []int{st.fired}
		}
		var r []int
		for i, c := range cases {
			if c.ready(t) {
				r = append(r, i)
			}
		}
		if len(r) == 0 && hasDefault {
			return []int{-1}
		}
		return r
	})
	for _, c := range cases {
		c.unregister()
	}
	st.done = true
	if alt >= 0 {
		cases[alt].fire()
	}
	t.h = mix(t.h, uint64(alt+2), 555)
	for _, c := range cases {
		if d, ok := c.(*DCase); ok && d.x != nil {
			EvRead(&d.x.o, "done?", b2u(d.x.err != nil))
		}
	}
	return alt
}

func RecvDone(ch <-chan struct{}) struct{} {
	Select(false, DoneCase(ch))
	return struct{}{}
}

func b2u(b bool) uint64 {
	if b {
		return 1
	}
	return 0
}
