package mc

import (
	"context"
	"fmt"
	"time"
)

// ---------- context ----------

type ctxKey struct{}

type Ctx struct {
	o        Obj
	parent   context.Context
	done     chan struct{}
	err      error
	cause    error
	children []*Ctx
	deadline time.Time
	hasDl    bool
}

func (c *Ctx) Deadline() (time.Time, bool) {
	if c.hasDl {
		return c.deadline, true
	}
	return c.parent.Deadline()
}
func (c *Ctx) Done() <-chan struct{} { return c.done }
func (c *Ctx) Err() error {
	simple("ctx.Err", nil)
	EvRead(&c.o, "ctx.Err", b2u(c.err != nil))
	return c.err
}
func (c *Ctx) Value(k any) any {
	if _, ok := k.(ctxKey); ok {
		return c
	}
	return c.parent.Value(k)
}
func (c *Ctx) String() string { return "mc.Ctx" }

func (c *Ctx) cancel(err, cause error) {
	if c.err != nil {
		return
	}
	EvWrite(&c.o, "ctx.cancel", 0)
	c.err = err
	if cause == nil {
		cause = err
	}
	c.cause = cause
	close(c.done)
	for _, ch := range c.children {
		ch.cancel(err, cause)
	}
}

func newCtx(parent context.Context) *Ctx {
	if parent == nil {
		panic("cannot create context from nil parent")
	}
	c := &Ctx{parent: parent, done: make(chan struct{})}
	S.doneReg[c.done] = c
	if p, ok := parent.Value(ctxKey{}).(*Ctx); ok {
		EvRead(&p.o, "ctx.child", b2u(p.err != nil))
		if p.err != nil {
			c.cancel(p.err, p.cause)
		} else {
			p.children = append(p.children, c)
		}
	} else if parent.Done() != nil {
		Fatalf("cancellable parent context not created through the mc shims (at %s)", callerSite())
	}
	return c
}

func WithCancelCause(parent context.Context) (context.Context, context.CancelCauseFunc) {
	c := newCtx(parent)
	return c, func(cause error) { simple("cancel", nil); c.cancel(context.Canceled, cause) }
}

func WithCancel(parent context.Context) (context.Context, context.CancelFunc) {
	c := newCtx(parent)
	return c, func() { simple("cancel", nil); c.cancel(context.Canceled, nil) }
}

// WithTimeout: the deadline is modelled as a timer thread that may fire at any time.
func WithTimeout(parent context.Context, d time.Duration) (context.Context, context.CancelFunc) {
	c := newCtx(parent)
	c.hasDl, c.deadline = true, time.Unix(4102444800, 0) // fixed far-future instant: never read for control flow by the code under test
	tm := AfterFunc(d, func() { c.cancel(context.DeadlineExceeded, nil) })
	return c, func() { simple("cancel", nil); tm.Stop(); c.cancel(context.Canceled, nil) }
}

func WithDeadline(parent context.Context, t time.Time) (context.Context, context.CancelFunc) {
	return WithTimeout(parent, time.Second)
}

func WithTimeoutCause(parent context.Context, d time.Duration, cause error) (context.Context, context.CancelFunc) {
	c := newCtx(parent)
	tm := AfterFunc(d, func() { c.cancel(context.DeadlineExceeded, cause) })
	return c, func() { simple("cancel", nil); tm.Stop(); c.cancel(context.Canceled, nil) }
}

func Cause(ctx context.Context) error {
	simple("ctx.Cause", nil)
	if c, ok := ctx.Value(ctxKey{}).(*Ctx); ok {
		EvRead(&c.o, "ctx.Cause", b2u(c.err != nil))
		return c.cause
	}
	return nil
}

// CtxAfterFunc is context.AfterFunc: f runs in a thread of its own once ctx is done, unless stop is called first.
// (As with the real one, nothing is left behind when ctx is never done: the waiting thread is a daemon.)
func CtxAfterFunc(ctx context.Context, f func()) (stop func() bool) {
	c, ok := ctx.Value(ctxKey{}).(*Ctx)
	if !ok {
		if ctx.Done() != nil {
			Fatalf("context.AfterFunc on a cancellable context not created through the mc shims (at %s)", callerSite())
		}
		return func() bool { return true } // never done: f never runs
	}
	st := &struct {
		o                Obj
		stopped, started bool
	}{}
	spawn("afterfunc(ctx)", false, func() {
		simple("ctx.afterfunc", func() bool { return c.err != nil || st.stopped })
		EvRead(&c.o, "ctx.afterfunc", b2u(c.err != nil))
		EvWrite(&st.o, "afterfunc.start", 0)
		if st.stopped {
			return
		}
		st.started = true
		f()
	})
	S.threads[len(S.threads)-1].daemon = true
	return func() bool {
		simple("afterfunc.stop", nil)
		EvWrite(&st.o, "afterfunc.stop", 0)
		r := !st.stopped && !st.started
		st.stopped = true
		return r
	}
}

// ---------- timers ----------

type Timer struct {
	o              Obj
	stopped, fired bool
	C              *Chan[time.Time]
}

func (t *Timer) Stop() bool {
	simple("timer.Stop", nil)
	EvWrite(&t.o, "timer.stop", 0)
	r := !t.stopped && !t.fired
	t.stopped = true
	return r
}

// AfterFunc creates a one-step timer thread that may fire at any later point until stopped.
func AfterFunc(d time.Duration, f func()) *Timer {
	tm := &Timer{}
	spawn(fmt.Sprintf("timer(%s)", d), false, func() {
		simple("timer.fire", func() bool { return !tm.stopped })
		EvWrite(&tm.o, "timer.fire", 0)
		if tm.stopped {
			return
		}
		tm.fired = true
		S.TimersFired++
		f()
	})
	return tm
}

func NewTimer(d time.Duration) *Timer {
	ch := MakeChan[time.Time](1)
	tm := AfterFunc(d, func() { ch.doSend(time.Unix(0, 0)) })
	tm.C = ch
	return tm
}

func After(d time.Duration) *Chan[time.Time] { return NewTimer(d).C }

// Sleep is a scheduling point; time itself is not modelled.
func Sleep(d time.Duration) { simple("sleep", nil) }
