package mc

import (
	"fmt"
	"sort"
	"strings"
	"time"
)

type Config struct {
	PreBound   int
	FaultBound int
	MaxSteps   int
	MaxExecs   int64
	Deadline   time.Time
	NoCache    bool
	Delay      bool // delay bounding instead of preemption bounding (see RunMode)
	Seed       uint64
	Cache      *StateCache // shared across successive Explore calls with growing bounds (nil = private)
	// Part / Parts split one exploration over several processes: the subtrees below the alternatives of the default
	// execution (the first-level branches) are dealt round-robin; part k explores the default execution and the branches
	// with index k modulo Parts. The union over all parts is the whole exploration; each part has its own state cache.
	Part, Parts int
	// MaxStates stops the exploration (result incomplete) once the state cache holds this many states; 0 = 6 million
	// (about 0.7 GB per process: 16 processes run side by side and the sandbox has no memory limit of its own).
	MaxStates int
}

// StateCache maps a state key to the pareto-minimal budgets with which the state has been expanded.
type StateCache struct{ m map[uint64][]budget }

func NewStateCache() *StateCache { return &StateCache{m: map[uint64][]budget{}} }
func (c *StateCache) Len() int   { return len(c.m) }

type Finding struct {
	Sig  string
	Desc string
}

type Violation struct {
	Finding
	Choices []int
	Trace   []string
	Count   int64
}

type Result struct {
	Execs, States, Transitions, Cuts int64
	MaxDepth                         int
	Outcomes                         map[string]int64
	Violations                       map[string]*Violation
	Fatal                            []string
	Complete                         bool
	Truncated                        int64
	SampleSchedules                  [][]string
	WallS                            float64
}

type budget struct{ p, f int8 }

// Oracle inspects one finished (not cut) execution and returns findings; outcome is a short classification
// string used to count distinct observed outcomes.
type Oracle func(x *Exec) (findings []Finding, outcome string)

// Explore enumerates all schedules of scenario within the preemption and fault bounds (iteratively
// from the default schedule; depth-first with replay; happens-before state cache).
func Explore(cfg Config, scenario func(), oracle Oracle) *Result {
	start := time.Now()
	if cfg.MaxSteps == 0 {
		cfg.MaxSteps = 5000
	}
	res := &Result{Outcomes: map[string]int64{}, Violations: map[string]*Violation{}, Complete: true}
	if cfg.Cache == nil {
		cfg.Cache = NewStateCache()
	}
	cache := cfg.Cache.m
	maxStates := cfg.MaxStates
	if maxStates == 0 {
		maxStates = 6000000
	}
	stop := false
	var rec func(prefix []int, used budget)
	rec = func(prefix []int, used budget) {
		if stop {
			return
		}
		if (cfg.MaxExecs > 0 && res.Execs >= cfg.MaxExecs) || (!cfg.Deadline.IsZero() && res.Execs%64 == 0 && time.Now().After(cfg.Deadline)) || len(cache) > maxStates {
			stop = true
			res.Complete = false
			return
		}
		var cut func(step int, key uint64) bool
		if !cfg.NoCache {
			// the cache stores the REMAINING budgets with which a state has been expanded: a state is cut
			// when it was already expanded with at least as much remaining budget in both dimensions.
			rem := budget{int8(cfg.PreBound) - used.p, int8(cfg.FaultBound) - used.f}
			cut = func(step int, key uint64) bool {
				key ^= cfg.Seed
				bs := cache[key]
				for _, b := range bs {
					if b.p >= rem.p && b.f >= rem.f {
						res.Cuts++
						return true
					}
				}
				if bs == nil {
					res.States++
				}
				nb := bs[:0]
				for _, b := range bs {
					if !(rem.p >= b.p && rem.f >= b.f) {
						nb = append(nb, b)
					}
				}
				cache[key] = append(nb, rem)
				return false
			}
		}
		x := RunMode(prefix, cfg.MaxSteps, false, cfg.Delay, scenario, cut)
		res.Execs++
		if n := len(x.Choices) - len(prefix); n > 0 {
			res.Transitions += int64(n)
		}
		if len(x.Choices) > res.MaxDepth {
			res.MaxDepth = len(x.Choices)
		}
		if len(x.Fatal) > 0 {
			res.Fatal = append(res.Fatal, x.Fatal...)
			stop = true
			res.Complete = false
			return
		}
		if x.Truncated {
			res.Truncated++
		}
		findings, outcome := oracle(x)
		if x.WasCut {
			outcome = "" // not a complete execution: do not count an outcome
		}
		if outcome != "" {
			res.Outcomes[outcome]++
		}
		for _, f := range findings {
			v := res.Violations[f.Sig]
			if v == nil {
				v = &Violation{Finding: f, Choices: append([]int{}, x.Choices...)}
				res.Violations[f.Sig] = v
			}
			v.Count++
		}
		// branch on the alternatives of every new point
		pu := used
		top := len(prefix) == 0 && cfg.Parts > 1
		branch := 0
		// recompute budget used along x up to each point: start from the budget of the prefix
		// (the prefix's own costs are already in `used`; later points took alternative 0 = cost 0)
		for i := len(prefix); i < len(x.Choices); i++ {
			costs := x.OptCosts[i]
			for alt := 1; alt < len(costs); alt++ {
				nb := pu
				if costs[alt]&CostPre != 0 {
					nb.p++
				}
				if costs[alt]&CostFault != 0 {
					nb.f++
				}
				if int(nb.p) > cfg.PreBound || int(nb.f) > cfg.FaultBound {
					continue
				}
				if top {
					branch++
					if (branch-1)%cfg.Parts != cfg.Part {
						continue
					}
				}
				np := make([]int, i+1)
				copy(np, x.Choices[:i])
				np[i] = alt
				rec(np, nb)
				if stop {
					return
				}
			}
			// alternative 0 may itself carry a cost (e.g. current thread blocked => free; never a fault)
			if costs[0]&CostPre != 0 {
				pu.p++
			}
		}
	}
	rec(nil, budget{})
	res.WallS = time.Since(start).Seconds()
	if cfg.NoCache {
		res.States = res.Transitions
	}
	return res
}

// Replay runs one schedule with tracing and returns the execution.
func Replay(choices []int, maxSteps int, scenario func()) *Exec {
	if maxSteps == 0 {
		maxSteps = 5000
	}
	return Run(choices, maxSteps, true, scenario, nil)
}

// DefaultOracle: library panics, harness failures, deadlocked harness threads and leaked library threads.
func DefaultOracle(x *Exec) ([]Finding, string) {
	var fs []Finding
	var parts []string
	for _, p := range x.Panics {
		fs = append(fs, Finding{Sig: "panic:" + classify(p.Value) + "@" + p.Site, Desc: fmt.Sprintf("thread %s panicked: %s (at %s)", p.Thread, p.Value, p.Site)})
		parts = append(parts, "panic:"+classify(p.Value)+"@"+p.Site)
	}
	for _, f := range x.Fail {
		sig := f
		if i := strings.Index(f, ":"); i > 0 {
			sig = f[:i]
		}
		fs = append(fs, Finding{Sig: "fail:" + sig, Desc: f})
		parts = append(parts, "fail:"+sig)
	}
	for _, b := range x.Blocked {
		if strings.HasPrefix(b.Thread, "timer(") || b.Daemon {
			continue
		}
		if len(x.Panics) > 0 {
			continue // the execution was derailed by a panic: blocked threads are a consequence, the panic is the finding
		}
		kind := "deadlock"
		if b.Lib {
			kind = "leak"
		} else if len(x.Panics) > 0 {
			continue // a harness thread waiting for a thread that panicked: the panic is the finding
		}
		sig := fmt.Sprintf("%s:%s@%s", kind, b.Op, b.Site)
		who := b.Thread
		fs = append(fs, Finding{Sig: sig, Desc: fmt.Sprintf("thread %s (started in %s) blocked forever in %s at %s", who, b.Origin, b.Op, b.Site)})
		parts = append(parts, sig)
	}
	if x.Truncated {
		parts = append(parts, "truncated")
	}
	for k, v := range x.Notes {
		parts = append(parts, k+"="+v)
	}
	sort.Strings(parts)
	if len(parts) == 0 {
		return fs, "ok"
	}
	return fs, strings.Join(parts, ";")
}

func classify(s string) string {
	if len(s) > 80 {
		s = s[:80]
	}
	var sb strings.Builder
	for _, r := range s {
		if r >= '0' && r <= '9' {
			continue
		}
		sb.WriteRune(r)
	}
	return sb.String()
}
